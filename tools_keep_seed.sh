#!/bin/sh
# usage: tools_keep_seed.sh <worktree> <seed-name> "<caught by ...>"
WT="$1"; NAME="$2"; CAUGHT="$3"
D=/verif/seeded/$NAME
mkdir -p "$D"
git -C "$WT" diff -- dd > "$D/patch.diff"
cp "$WT/_seed/demo.py" "$D/demo.py"
/venv/bin/python - "$WT/_seed/meta.json" "$D/meta.json" "$CAUGHT" <<'PY'
import json, sys
try:
    m = json.load(open(sys.argv[1]))
except Exception as e:
    m = dict(note=f'meta.json of the sub-agent unreadable: {e}')
m['confirmed_by_me'] = ('demo.py exits 1 with the change and 0 without (git stash); '
                        'the 105 baseline tests pass with the change (tools_baseline.sh); '
                        'checks run with DD_SRC=<scratch worktree with the change>, i.e. the same code path as applying patch.diff to /repo')
m['checks'] = sys.argv[3]
json.dump(m, open(sys.argv[2], 'w'), indent=1)
PY
ls "$D"
