import json
props = json.load(open('/tmp/props.json'))
LEVEL = {
 'C01': ('good', 'Thorough adds the dense workload (all 65536 operand pairs of the 3-variable functions x 6 connective classes, negation, sampled ITE triples) under seeded background events. Seeded search over histories (create / connective / collect / swap / sift / finalize interleavings, both flavours); every connective entry point and alias is judged against a truth-table model on managers with warm caches, recycled node numbers and post-swap tables.'),
 'C02': ('good', 'Invariant monitor: structural reducedness, ordering, uniqueness and pairwise-distinct denotations of all stored nodes are re-derived independently after every step of every history; equal functions arrive by many routes (connectives, find_or_add, parsing, substitution, load, copy).'),
 'C03': ('partial', 'Quantification entry points on managers reached by seeded histories; result compared with or/and of cofactors on truth tables.'),
 'C04': ('partial', 'The three let arms and their direct methods on managers reached by seeded histories; result compared with simultaneous substitution on truth tables.'),
 'C05': ('good', 'Generated ASTs rendered with the documented precedence table, every spelling, comments and @n references, parsed by the process-global translator that is shared by two managers and survives rejected parses; expected function computed from the AST.'),
 'C06': ('home', 'Directed stale-cache probes (unreferenced operand, full or rooted collection, number recycled, same integers asked again) and, in thorough, every event sequence of length <= 5 over an 8-letter alphabet. Interleavings of creation, incref/decref, full and rooted collection, swap and reorder with number reuse; count = in-edges + ledger after every step; exact reachability after every full collection.'),
 'C07': ('good', 'Held functions across swap / sift / reorder(order) / reorder_to_pairs under varying PYTHONHASHSEED (sifting visits variables in set order); denotation, integer identity, count, canonicity and requested order checked after every step.'),
 'C08': ('good', 'A line-level mode (sys.settrace) finalizes parked handles at the k-th line executed inside dd; thorough sweeps the pre-emption point. The schedule is the finalizer schedule: drops are immediate, deferred to a scheduler point, or deferred to the k-th node-creation request inside a later operation (gc disabled, handles parked in cycles); counts = in-edges + live Functions after every step; shutdown check at the end of every run.'),
 'C09': ('home', 'Thorough adds position sweeps: one seeded prefix and final operation per group, the trigger firing after j = 0..15 further creations. The growth threshold is armed so that the repository own trigger fires after j more creations inside each kind of operation; results, operands, other handles, configure() and the exception seen by the caller are judged exactly as with reordering off.'),
 'C10': ('weak', 'Seeded input sampling on managers reached by histories (no schedule of its own): support, count, pick, pick_iter judged against the truth table.'),
 'C11': ('partial', 'Two managers with diverging histories and orders; all copy routes; source untouched, target canonical with exact counts.'),
 'C12': ('good', 'Thorough adds byte-position sweeps of write/read/shelf faults and a real-disk slice (real shelve in a scratch directory). Pickle, JSON and whole-manager round trips through an in-memory disk with open/write/read/shelf faults and torn files; a dump that returned must load back exactly, a torn file may fail to load but never load wrong functions; receiver invariants after every step.'),
 'C13': ('weak', 'Seeded input sampling (no schedule of its own): image / preimage against the relational product on truth tables, names and levels, both quantifiers, adjacent and (image) arbitrary pairs.'),
 'C14': ('good', 'Interleavings of declare / add_var / construct / collect / swap / undeclare_vars with every subset argument; the four order views, returned levels, refusals and removed sets judged; all handles keep their functions.'),
 'C15': ('partial', 'MDD manager sub-simulation (find_or_add / ite / apply / incref / decref / collect with recycled numbers) and bdd_to_mdd at arbitrary points of a BDD history; MDD evaluated on every integer assignment.'),
 'C16': ('weak', 'Seeded input sampling through the file seam: DDDMP text written by an independent writer from simulated managers (random topological numbering, varinfo 0/1/3, gaps, complemented roots) and loaded by dd.dddmp.'),
 'C17': ('home', '16 reject kinds incl. a pickle whose levels clash at a seeded position of its variable table; thorough adds disk-fault position sweeps. The Rejector injects one call that must fail (15 kinds, offending item at a seeded position) or one disk fault at seeded points of random histories, with reordering off and on; all invariants are judged right after the exception and after the next operation.'),
 'C18': ('weak', 'Observer calls on reached states: Shannon re-composition from low/high/succ, descendants / len / dag_size against an independent traversal and a canonical-size model, to_nx and DOT exports parsed back and evaluated.'),
}
checks = []
for p in sorted(LEVEL):
    fit, text = LEVEL[p]
    tech = 'deterministic simulation: seeded search over operation/fault schedules with per-step invariants against a truth-table reference model; minimised replayable traces'
    if fit == 'weak':
        tech = 'seeded input sampling riding on the deterministic simulator (states reached by simulated histories; the property itself has no schedule or fault dimension)'
    checks.append(dict(
        property_id=p,
        quick_cmd=f'./check {p} --tier quick',
        thorough_cmd=f'./check {p} --tier thorough',
        evidence_file=f'/verif/evidence/{p}.json',
        replay_cmd_template='./check replay {path}',
        engine='ddsim',
        level_claimed=dict(category='exploration', text=text + ' A clean batch is evidence, not proof.', design_ref='DESIGN.md §6 ' + p),
        level_note='Trusted: truth-table model, independent denotation walk, handle ledger, CPython refcounting and gc.disable(); bounds <= 9 variables, <= a few hundred steps per run; sampling, not enumeration.',
        technique=tech))
m = dict(
    version=1,
    setup_cmd='/venv/bin/python -c "import dd, ply, astutils, networkx; print(\'ddsim setup ok\')"',
    hooks=dict(
        guard='DDSIM (read by the simulator only; no hook is compiled into /repo)',
        enable='none needed: the simulator monkeypatches module-level names of dd from outside (dd.bdd._request_reordering, open/os/shutil/_open_shelf/_sbp) inside simulator processes only',
        baseline_off_cmd='cd /repo && /venv/bin/python -m pytest -ra -q -p no:cacheprovider --timeout=900 --continue-on-collection-errors',
        source_commits=[],
        add_only=True),
    engines=[dict(name='ddsim', path='/verif/ddsim', serves_properties=sorted(LEVEL),
                  kind_free_text='deterministic simulator with fault injection: seeded scheduler, total-instruction traces, ddmin shrinker, replay in a fresh interpreter under the recorded PYTHONHASHSEED')],
    checks=checks,
    notes='See DESIGN.md. Exit codes: 0 held, 1 VIOLATION, 2 HARNESS-ERROR.',
    not_applicable=[dict(property_id='C19', reason='The CUDD/Sylvan/BuDDy wrappers cannot be built or run offline (no C libraries or headers), so no wrapper code can execute under a scheduler; the property is anchored in .pyx source text, which is static analysis, a different technique (DESIGN.md §6 C19).')])
json.dump(m, open('/verif/MANIFEST.json', 'w'), indent=1)
