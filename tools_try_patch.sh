#!/bin/sh
# usage: tools_try_patch.sh <seed-name> <PROP> [PROP...]   (env RUNS)
# Applies seeded/<name>/patch.diff to a scratch copy of /repo/dd (outside
# /repo and /verif), runs the given checks with DD_SRC, removes the copy.
NAME="$1"; shift
S="$(mktemp -d /tmp/try_patch.XXXXXX)"
cp -r /repo/dd "$S/dd"; rm -rf "$S/dd/__pycache__"
( cd "$S" && patch -s -p1 < /verif/seeded/$NAME/patch.diff ) || { echo "patch failed"; rm -rf "$S"; exit 2; }
cd /verif
for P in "$@"; do
  DD_SRC="$S" ./check "$P" --runs "${RUNS:-9600}" 2>&1 | grep -v "^KNOWN" | grep -v "^  " | tail -2 | cut -c1-200
done
rm -rf "$S"
