"""C10 count/pick/support, C11 copy, C13 image/preimage, C14 declare /
undeclare, C18 structural views."""
import collections
import re

from ddsim import gen, ops, seams
from ddsim.ops import call, declared, expect_ok, mask_to_ks, node_of, owner_tags, ref_ok, take_result


# ---------------------------------------------------------------------------
# C10
# ---------------------------------------------------------------------------
def op_support(w, ins):
    m = ins.get('m', 0)
    a = w.pick(ins['a'], m)
    if a is None:
        return 'skip'
    g = w.mgrs[m]
    T = w.tt
    want = {w.names[k] for k in T.support(a.tt)}
    how = ins.get('how', 0)
    if g.flavor == 'autoref' and how == 1:
        ok, v = call(w, lambda f: f.support, a.ref)
    else:
        ok, v = call(w, g.api.support, a.ref)
    expect_ok(w, ok, v, 'C10', 'support')
    if set(v) != want or len(v) != len(want):
        w.fail('wrong_result', f'support is {sorted(v)}, model says {sorted(want)}', owner_tags(w, 'C10'))
    if how == 2:
        ok, v = call(w, g.api.support, a.ref, True)
        expect_ok(w, ok, v, 'C10', 'support(as_levels)')
        sn = w.snapshot(m)
        wl = {sn.order.index(nm) for nm in want}
        if set(v) != wl:
            w.fail('wrong_result', f'support as levels is {sorted(v)}, model says {sorted(wl)}', owner_tags(w, 'C10'))
    if g.flavor == 'raw':
        for k in declared(w, m):
            ok, v = call(w, g.raw.is_essential, a.ref, w.names[k])
            expect_ok(w, ok, v, 'C10', 'is_essential')
            if bool(v) != (w.names[k] in want):
                w.fail('wrong_result', f'is_essential({w.names[k]!r}) is {v}, model says {w.names[k] in want}', owner_tags(w, 'C10'))
        ok, v = call(w, g.raw.is_essential, a.ref, 'no such variable')
        expect_ok(w, ok, v, 'C10', 'is_essential')
        if v:
            w.fail('wrong_result', 'is_essential of an undeclared name is true', owner_tags(w, 'C10'))


def op_count(w, ins):
    m = ins.get('m', 0)
    a = w.pick(ins['a'], m)
    if a is None:
        return 'skip'
    g = w.mgrs[m]
    T = w.tt
    s = len(T.support(a.tt))
    extra = ins.get('extra')
    fm = g.flavor == 'autoref' and ins.get('how')
    if extra is None:
        ok, v = call(w, (lambda f: f.count()) if fm else g.api.count, a.ref)
        want = T.count_over(a.tt, s)
    elif extra < 0:
        if s + extra < 0:
            return 'skip'
        ok, v = call(w, (lambda f, n: f.count(n)) if fm else g.api.count, a.ref, s + extra)
        if ok:
            w.fail('not_refused', f'count(u, {s + extra}) with support of {s} variables returned {v!r} instead of refusing', owner_tags(w, 'C10'))
        w.cur_info['expected_raise'] = True
        return
    else:
        ok, v = call(w, (lambda f, n: f.count(n)) if fm else g.api.count, a.ref, s + extra)
        want = T.count_over(a.tt, s + extra)
    expect_ok(w, ok, v, 'C10', 'count')
    if v != want or isinstance(v, bool) or not isinstance(v, int):
        w.fail('wrong_result', f'count returned {v!r}, model says {want}', owner_tags(w, 'C10'))


def _judge_assignment(w, d, tt, care, exact_keys, what):
    T = w.tt
    if not isinstance(d, dict):
        w.fail('wrong_result', f'{what}: yielded {type(d).__name__}', owner_tags(w, 'C10'))
    asg = {}
    for nm, val in d.items():
        if nm not in w.name_idx or not isinstance(val, bool):
            w.fail('wrong_result', f'{what}: entry {nm!r}: {val!r}', owner_tags(w, 'C10'))
        asg[w.name_idx[nm]] = val
    c = T.cube(asg)
    if c & T.neg(tt):
        w.fail('wrong_result', f'{what}: assignment {d} does not imply the function', owner_tags(w, 'C10'))
    if not care <= set(asg):
        w.fail('wrong_result', f'{what}: assignment {d} misses care variables', owner_tags(w, 'C10'))
    if exact_keys is not None and set(asg) != exact_keys:
        w.fail('wrong_result', f'{what}: assignment {d} is not over exactly the support', owner_tags(w, 'C10'))
    return c


def op_pick(w, ins):
    m = ins.get('m', 0)
    a = w.pick(ins['a'], m)
    if a is None:
        return 'skip'
    g = w.mgrs[m]
    T = w.tt
    dec = declared(w, m)
    sup = set(T.support(a.tt))
    mode = ins.get('care')            # None | mask
    if mode is None:
        care_k = set()
        care_arg = None
        exact = set(sup)
    else:
        care_k = set(mask_to_ks(mode, dec))
        if ins.get('superset'):
            care_k |= sup
        if ins.get('undeclared'):
            # a care variable that the manager does not declare (doc.md:
            # `bdd.declare('x', 'y'); bdd.pick_iter(u, ['x', 'y', 'z'])`)
            extra = [k for k in range(w.nv) if k not in dec]
            if extra:
                care_k.add(extra[ins['undeclared'] % len(extra)])
                w.stats['pick_care_undeclared'] += 1
        care_arg = {w.names[k] for k in care_k}
        kind = ins.get('cont', 0)
        if kind == 1:
            care_arg = frozenset(care_arg)
        elif kind == 2:
            care_arg = dict.fromkeys(sorted(care_arg, reverse=True)).keys()   # a Set view
        exact = None
    it = ins.get('iter', True)
    if not it:
        fm = g.flavor == 'autoref' and ins.get('how')
        if fm:
            ok, v = call(w, lambda f, c: f.pick(c), a.ref, care_arg)
        else:
            ok, v = call(w, g.api.pick, a.ref, care_arg)
        expect_ok(w, ok, v, 'C10', 'pick')
        if (v is None) != (a.tt == 0):
            w.fail('wrong_result', f'pick returned {v!r} for a function that is {"false" if a.tt == 0 else "satisfiable"}', owner_tags(w, 'C10'))
        if v is not None:
            _judge_assignment(w, v, a.tt, care_k, exact, 'pick')
        return
    lap = ins.get('overlap')
    if lap:
        # two enumerations alive at the same time, consumed in an interleaved
        # way (side by side, zip, or one abandoned half-way); nothing else
        # happens to the manager meanwhile.  The first one is the one judged.
        b = w.pick(ins.get('b', 0), m)

        def both(u, c, u2):
            it1 = g.api.pick_iter(u, c)
            it2 = g.api.pick_iter(u2)
            out = []
            if lap == 1:
                # started in one order, finished in the same order
                out += [x for x in [next(it1, None)] if x is not None]
                next(it2, None)
                out += list(it1)
                list(it2)
            elif lap == 2:
                for _, x in zip(it2, it1):      # (zip asks `it2` first: nothing of `it1` is lost)
                    out.append(x)
                out += list(it1)
                list(it2)
            else:
                next(it2, None)
                out = list(it1)
                it2.close()
            return out
        ok, v = call(w, both, a.ref, care_arg, b.ref)
        w.stats['pick_iter_overlapping'] += 1
    else:
        ok, v = call(w, lambda u, c: list(g.api.pick_iter(u, c)), a.ref, care_arg)
    expect_ok(w, ok, v, 'C10', 'pick_iter')
    acc = 0
    for d in v:
        c = _judge_assignment(w, d, a.tt, care_k, exact, 'pick_iter')
        if acc & c:
            w.fail('wrong_result', f'pick_iter: assignment {d} overlaps an earlier one', owner_tags(w, 'C10'))
        acc |= c
    if acc != a.tt:
        w.fail('wrong_result', 'pick_iter: the assignments do not cover all models', owner_tags(w, 'C10'))
    if mode is None and len(v) != T.count_over(a.tt, len(sup)):
        w.fail('wrong_result', f'pick_iter yielded {len(v)} assignments, count over the support is {T.count_over(a.tt, len(sup))}', owner_tags(w, 'C10'))


# ---------------------------------------------------------------------------
# C11
# ---------------------------------------------------------------------------
def op_copy(w, ins):
    src = ins.get('m', 0)
    dst = 1 - src
    if len(w.mgrs) < 2:
        return 'skip'
    a = w.pick(ins['a'], src)
    if a is None:
        return 'skip'
    gs, gd = w.mgrs[src], w.mgrs[dst]
    T = w.tt
    D = seams.DD
    decd = set(declared(w, dst))
    how = ins.get('how', 0)
    src_order = list(w.snapshot(src).order)
    src_led = w.ledger(src)
    if how == 3 and gs.flavor == 'autoref':
        roots = [a] + [w.pick(i, src) for i in ins.get('more', [])]
        if any(set(T.support(s.tt)) - decd for s in roots):
            return 'skip'
        ok, v = call(w, D.copy.copy_bdds_from, [s.ref for s in roots], gd.api)
        expect_ok(w, ok, v, 'C11', 'copy_bdds_from')
        if not isinstance(v, list) or len(v) != len(roots):
            w.fail('wrong_result', 'copy_bdds_from: wrong container', owner_tags(w, 'C11'))
        for s, r in zip(roots, v):
            take_result(w, dst, True, r, s.tt, 'C11', what='copy_bdds_from element')
        del v
    else:
        if set(T.support(a.tt)) - decd:
            return 'skip'
        if how == 0:
            ok, v = call(w, gs.api.copy, a.ref, gd.api)
        elif how == 1:
            if gs.flavor == 'raw':
                ok, v = call(w, D.bdd.copy_bdd, a.ref, gs.raw, gd.raw)
            else:
                ok, v = call(w, D.autoref.copy_bdd, a.ref, gd.api)
        elif how == 2 and gs.flavor == 'autoref':
            if ins.get('shared'):
                # the memo is the caller's and is shared between calls, with
                # whatever happens to both managers in between
                cache = w.copy_caches.setdefault((src, dst), {})
                meaning = w.copy_cache_tt.setdefault((src, dst), {})
                # the memo is keyed by nodes of the source, which it does not
                # reference: it is the user's to discard once any of them is
                # gone or recycled (the target side is protected by the
                # handles the memo holds)
                if not cache:
                    meaning.clear()
                if any(w.den(src, k) != meaning.get(k) for k in cache):
                    cache.clear()
                    meaning.clear()
                    w.stats['copy_shared_cache_discarded'] += 1
                elif cache:
                    w.stats['copy_shared_cache_reused'] += 1
                ok, v = call(w, D.copy.copy_bdd, a.ref, gd.api, cache)
                w.touch()
                for k in cache:
                    if k not in meaning:
                        meaning[k] = w.den(src, k)
                w.stats['copy_shared_cache'] += 1
                if ok and type(v) is D.autoref.Function:
                    v = ~ ~v        # a handle of the user's own, not the memo's object
            else:
                ok, v = call(w, D.copy.copy_bdd, a.ref, gd.api)
        else:
            return 'skip'
        take_result(w, dst, ok, v, a.tt, 'C11', ins.get('keep', True), f'copy[{how}] M{src}->M{dst}')
        del v
    # the source is untouched
    w.touch()
    if list(w.snapshot(src).order) != src_order:
        w.fail('source_changed', 'copy changed the variable order of the source', owner_tags(w, 'C11'))
    w.stats['copy'] += 1


def op_copy_vars(w, ins):
    """copy_vars into a fresh manager (replaces M1 when nobody holds it)."""
    if len(w.mgrs) < 2 or w.slots_of(1):
        return 'skip'
    D = seams.DD
    gs = w.mgrs[0]
    gd = w.new_manager(1, [])
    if gs.flavor == 'raw':
        ok, v = call(w, D.copy.copy_vars, gs.raw, gd.raw)
    else:
        ok, v = call(w, D.autoref.copy_vars, gs.api, gd.api)
    expect_ok(w, ok, v, 'C11', 'copy_vars')
    if w.snapshot(1).order != w.snapshot(0).order:
        w.fail('wrong_order', f'copy_vars: target order {w.snapshot(1).order}, source {w.snapshot(0).order}', ['C11'])


def op_fork(w, ins):
    """`copy.copy(manager)` (dd.bdd only): the copy replaces M1 when nobody
    holds M1, and from then on both managers go on working — two managers with
    a shared past.  The copy has the same nodes and counts, so every handle
    on M0 is also a handle on the copy."""
    g = w.mgrs[0]
    if g.flavor != 'raw' or len(w.mgrs) < 2 or w.slots_of(1):
        return 'skip'
    import copy as _cp
    w.finalize()
    ok, nb = call(w, _cp.copy, g.raw)
    expect_ok(w, ok, nb, 'C11', 'copy.copy(manager)')
    from ddsim.world import Mgr
    tmp = Mgr(1, 'raw', nb, nb)
    tmp.term_base = g.term_base      # the manager's own reference to the terminal
    a, b = w.snapshot(0), w.snapshot(tmp)
    if a.order != b.order or a.succ != b.succ:
        w.fail('wrong_result', 'copy.copy(manager) does not reproduce the order and the nodes', ['C11', 'C02'])
    if a.refs != b.refs:
        # the copy holds the same nodes with other counts: the next collection
        # in it frees nodes that stored edges and handles still point to
        w.fail('I-count', 'copy.copy(manager): the copy has the same nodes but different reference counts', ['C11', 'C02', 'C06'])
    for key in [k for k in w.copy_caches if 1 in k]:
        del w.copy_caches[key]
    w.mgrs[1] = tmp
    for s_ in list(w.slots_of(0)):
        w.add_slot(1, s_.ref, s_.tt)
    w.touch()
    w.stats['fork'] += 1


# ---------------------------------------------------------------------------
# C13
# ---------------------------------------------------------------------------
def op_image(w, ins):
    m = ins.get('m', 0)
    g = w.mgrs[m]
    trans = w.pick(ins['a'], m)
    if trans is None:
        return 'skip'
    other = w.pick(ins['b'], m)
    T = w.tt
    sn = w.snapshot(m)
    order = sn.order or []
    n = len(order)
    pre = bool(ins['pre'])
    # pairs as positions in the current order: (i, j) -> rename order[i] -> order[j]
    pairs = []
    used = set()
    for i, j in ins['pairs']:
        if n < 2:
            break
        i %= n
        j %= n
        if i == j or i in used or j in used:
            continue
        if pre and abs(i - j) != 1:
            continue
        used.add(i)
        used.add(j)
        pairs.append((i, j))
    if not pairs and ins['pairs']:
        return 'skip'
    # (an empty rename is the plain relational product: legal)
    keys = {i for i, _ in pairs}
    vals = {j for _, j in pairs}
    ren_k = {w.name_idx[order[i]]: w.name_idx[order[j]] for i, j in pairs}
    qpos = [p for p in range(n) if (ins['qmask'] >> p) & 1]
    forall = bool(ins['forall'])
    if pre and set(T.support(other.tt)) & set(ren_k.values()):
        # documented use: `rename` maps variables of `target` to (primed)
        # variables of `trans`; a target that itself mentions the primed
        # partner makes the renaming non-injective, which the documentation
        # does not give a meaning to.  Not judged (DESIGN §9).
        w.stats['preimage_target_mentions_primed'] += 1
        return 'skip'
    if pre:
        # Q qvars . trans /\ target[rename]
        conj = trans.tt & T.rename(other.tt, ren_k)
        ks = [w.name_idx[order[p]] for p in qpos]
        want = T.forall(conj, ks) if forall else T.exists(conj, ks)
    else:
        # rename targets must be quantified or absent from the operands
        sup = set(T.support(trans.tt)) | set(T.support(other.tt))
        for j in vals:
            kj = w.name_idx[order[j]]
            if kj in sup and j not in qpos:
                qpos.append(j)
        ks = [w.name_idx[order[p]] for p in qpos]
        conj = trans.tt & other.tt
        q = T.forall(conj, ks) if forall else T.exists(conj, ks)
        want = T.rename(q, ren_k)
    as_levels = bool(ins.get('levels'))
    if as_levels:
        rename = {i: j for i, j in pairs}
        qv = set(qpos)
    else:
        rename = {order[i]: order[j] for i, j in pairs}
        qv = {order[p] for p in qpos}
    if ins.get('qlist') and not as_levels:
        qv = sorted(qv)
    D = seams.DD
    fn = (D.bdd.preimage if pre else D.bdd.image) if g.flavor == 'raw' else (D.autoref.preimage if pre else D.autoref.image)
    if g.flavor == 'raw':
        ok, v = call(w, fn, trans.ref, other.ref, rename, qv, g.raw, forall)
    else:
        ok, v = call(w, fn, trans.ref, other.ref, rename, qv, forall)
    take_result(w, m, ok, v, want, 'C13', ins.get('keep', True), f'{"preimage" if pre else "image"} rename={rename} qvars={qv} forall={forall}')
    w.stats['preimage' if pre else 'image'] += 1
    if not pre and any(abs(i - j) != 1 for i, j in pairs):
        w.stats['image_nonadjacent'] += 1


# ---------------------------------------------------------------------------
# C14
# ---------------------------------------------------------------------------
def op_declare(w, ins):
    m = ins.get('m', 0)
    g = w.mgrs[m]
    sn = w.snapshot(m)
    order = list(sn.order or [])
    n = len(order)
    k = ins['k'] % w.nv
    nm = w.names[k]
    how = ins.get('how', 0)
    known = nm in order
    if how == 0:
        ok, v = call(w, g.api.declare, nm)
        want_level = None
    elif how == 1:
        ok, v = call(w, g.api.add_var, nm)
        want_level = order.index(nm) if known else n
    elif how == 2:
        lv = order.index(nm) if known else n
        ok, v = call(w, g.api.add_var, nm, lv)
        want_level = lv
    else:
        return 'skip'
    expect_ok(w, ok, v, 'C14', f'declare[{how}]({nm!r})')
    if want_level is not None and v != want_level:
        w.fail('wrong_result', f'add_var({nm!r}) returned level {v!r}, expected {want_level}', ['C14'])
    after = w.snapshot(m).order
    want = order if known else order + [nm]
    if after != want:
        w.fail('wrong_order', f'after declaring {nm!r}: order {after}, expected {want}', ['C14'])
    w.stats['declare_new' if not known else 'declare_again'] += 1
    if not known:
        ops.check_unique_table(w, m, ['C14'])


def op_declare_many(w, ins):
    """Several new variables with explicit levels, given in an order that
    differs from the level order (what copy_vars, the constructor and the
    pickle loader do); the levels are contiguous once all are declared."""
    m = ins.get('m', 0)
    g = w.mgrs[m]
    sn = w.snapshot(m)
    order = list(sn.order or [])
    n = len(order)
    dec = set(declared(w, m))
    new = [k for k in range(w.nv) if k not in dec][:max(2, ins.get('n', 2))]
    if len(new) < 2:
        return 'skip'
    import random as _rnd
    rr = _rnd.Random(ins['style'])
    items = [(w.names[k], n + j) for j, k in enumerate(new)]
    want = order + [nm for nm, _ in items]
    rr.shuffle(items)
    if [l for _, l in items] == sorted(l for _, l in items):
        items.reverse()
    for nm, l in items:
        ok, v = call(w, g.api.add_var, nm, l)
        expect_ok(w, ok, v, 'C14', f'add_var({nm!r}, {l})')
        if v != l:
            w.fail('wrong_result', f'add_var({nm!r}, {l}) returned {v!r}', ['C14'])
    after = w.snapshot(m).order
    if after != want:
        w.fail('wrong_order', f'after declaring {items}: order {after}, expected {want}', ['C14'])
    w.stats['declare_many'] += 1
    ops.check_unique_table(w, m, ['C14'])


def op_undeclare(w, ins):
    m = ins.get('m', 0)
    g = w.mgrs[m]
    if g.flavor != 'raw':
        return 'skip'
    sn = w.snapshot(m)
    order = list(sn.order or [])
    used_levels = {t[0] for u, t in sn.succ.items() if u != 1}
    unused = [nm for l, nm in enumerate(order) if l not in used_levels]
    mask = ins['mask']
    if mask == 0:
        names = []
        want_rm = set(unused)
    else:
        names = [nm for l, nm in enumerate(order) if (mask >> l) & 1 and l not in used_levels]
        if not names:
            return 'skip'
        want_rm = set(names)
    if ins.get('twice') and names:
        # a name may be given more than once (e.g. `*names` from a list)
        names = names + [names[ins['twice'] % len(names)]]
    ok, v = call(w, g.raw.undeclare_vars, *names)
    expect_ok(w, ok, v, 'C14', f'undeclare_vars{tuple(names)}')
    if set(v) != want_rm:
        w.fail('wrong_result', f'undeclare_vars{tuple(names)} removed {sorted(v)}, expected {sorted(want_rm)}', ['C14'])
    after = w.snapshot(m).order
    want = [nm for nm in order if nm not in want_rm]
    if after != want:
        w.fail('wrong_order', f'after undeclare_vars{tuple(names)}: order {after}, expected {want}', ['C14'])
    w.stats['undeclare'] += 1
    if want_rm:
        w.stats['undeclare_removed'] += 1
    ops.check_unique_table(w, m, ['C14'])


# ---------------------------------------------------------------------------
# C18
# ---------------------------------------------------------------------------
def _reach(sn, roots):
    seen = {1}
    st = [abs(r) for r in roots]
    while st:
        u = st.pop()
        if u in seen:
            continue
        seen.add(u)
        i, lo, hi = sn.succ[u]
        if lo is not None:
            st.append(abs(lo))
            st.append(abs(hi))
    return seen


def op_sizes(w, ins):
    m = ins.get('m', 0)
    a = w.pick(ins['a'], m)
    if a is None:
        return 'skip'
    g = w.mgrs[m]
    sn = w.snapshot(m)
    roots = [a] + [w.pick(i, m) for i in ins.get('more', [])]
    rr = [node_of(s.ref) for s in roots]
    reach = _reach(sn, rr)
    T = w.tt
    order = [w.name_idx[nm] for nm in sn.order]
    canon = T.canonical_size([s.tt for s in roots], order)
    if len(reach) != canon:
        w.fail('size_model', f'reachable set of {rr} has {len(reach)} nodes, canonical-size model says {canon}', ['C18', 'C02'])
    if g.flavor == 'raw':
        ok, v = call(w, g.raw.descendants, rr)
        expect_ok(w, ok, v, 'C18', 'descendants')
        if set(v) != reach or len(v) != len(reach):
            w.fail('wrong_result', f'descendants({rr}) = {sorted(v)[:12]}, independent traversal gives {sorted(reach)[:12]}', ['C18'])
    else:
        ok, v = call(w, lambda f: (len(f), f.dag_size), a.ref)
        expect_ok(w, ok, v, 'C18', 'len(u)/dag_size')
        r1 = _reach(sn, rr[:1])
        if v[0] != len(r1) or v[1] != len(r1):
            w.fail('wrong_result', f'len(u)={v[0]} dag_size={v[1]}, reachable nodes {len(r1)}', ['C18'])
    ok, v = call(w, len, g.api)
    expect_ok(w, ok, v, 'C18', 'len(bdd)')
    if v != len(sn.succ):
        w.fail('wrong_result', f'len(bdd)={v}, stored nodes {len(sn.succ)}', ['C18'])


def op_to_nx(w, ins):
    m = ins.get('m', 0)
    a = w.pick(ins['a'], m)
    if a is None:
        return 'skip'
    g = w.mgrs[m]
    sn = w.snapshot(m)
    roots = [a] + [w.pick(i, m) for i in ins.get('more', [])]
    rr = [node_of(s.ref) for s in roots]
    D = seams.DD
    # `roots`: annotated as a set, documented as "iterable of edges"
    kind = ins.get('cont', 0)
    arg = [set(rr), list(rr), tuple(rr), iter(list(rr)), (x for x in list(rr))][kind % 5]
    ok, gr = call(w, D.bdd.to_nx, g.raw, arg)
    del arg
    expect_ok(w, ok, gr, 'C18', 'to_nx')
    reach = _reach(sn, rr)
    if set(gr.nodes) != reach:
        w.fail('wrong_result', f'to_nx: nodes {sorted(gr.nodes)[:12]}, reachable {sorted(reach)[:12]}', ['C18'])
    T = w.tt
    den = {}
    # evaluate the exported graph bottom-up by its own level attribute
    by_level = sorted(gr.nodes, key=lambda u: -gr.nodes[u]['level'])
    for u in by_level:
        lv = gr.nodes[u]['level']
        out = list(gr.out_edges(u, data=True))
        if not out:
            den[u] = T.mask
            if lv != len(sn.order):
                w.fail('wrong_result', f'to_nx: leaf {u} at level {lv}', ['C18'])
            continue
        lo = [(v_, dct) for _, v_, dct in out if dct['value'] is False]
        hi = [(v_, dct) for _, v_, dct in out if dct['value'] is True]
        # a MultiDiGraph may repeat an edge when a node is reached from two
        # roots; that does not change what the graph evaluates to
        if not lo or not hi or any((v_, dct['complement']) != (lo[0][0], lo[0][1]['complement']) for v_, dct in lo) \
                or any((v_, dct['complement']) != (hi[0][0], hi[0][1]['complement']) for v_, dct in hi):
            w.fail('wrong_result', f'to_nx: node {u} has {len(lo)} else-edges and {len(hi)} then-edges that disagree', ['C18'])
        if len(lo) > 1 or len(hi) > 1:
            w.stats['to_nx_parallel_edges'] += 1
        dl = den[lo[0][0]]
        if lo[0][1]['complement']:
            dl = T.neg(dl)
        dh = den[hi[0][0]]
        if hi[0][1]['complement']:
            dh = T.neg(dh)
        k = w.name_idx[sn.order[lv]]
        den[u] = T.ite(T.var[k], dh, dl)
    for s, r in zip(roots, rr):
        d = den[abs(r)]
        if r < 0:
            d = T.neg(d)
        if d != s.tt:
            w.fail('wrong_result', f'to_nx: graph evaluated at root {r} differs from the function', ['C18'])
    w.stats['to_nx'] += 1


_NODE_RE = re.compile(r'^\s*("?[\w\-@]+"?) \[(.*)\];\s*$')
_EDGE_RE = re.compile(r'^\s*("?[\w\-@]+"?) -> ("?[\w\-@]+"?) \[(.*)\];\s*$')
_ATTR_RE = re.compile(r'(\w+)="([^"]*)"')


def parse_dot(text):
    """Parse the DOT text `dd` writes: nodes, edges, rank-same groups."""
    nodes = {}
    edges = []
    groups = []
    cur = None
    for line in text.splitlines():
        s = line.strip()
        if s.startswith('subgraph'):
            cur = []
            groups.append(cur)
            continue
        if s == '}':
            cur = None
            continue
        me = _EDGE_RE.match(line)
        if me:
            edges.append((me.group(1).strip('"'), me.group(2).strip('"'), dict(_ATTR_RE.findall(me.group(3)))))
            continue
        mn = _NODE_RE.match(line)
        if mn:
            nm = mn.group(1).strip('"')      # DOT identifiers may be quoted or not
            at = dict(_ATTR_RE.findall(mn.group(2)))
            if nm in nodes and nm.startswith('ref') and nodes[nm].get('label') != at.get('label'):
                # one reference node declared with two different labels
                at['label'] = nodes[nm].get('label', '') + '\x00' + at.get('label', '')
            nodes[nm] = at
            if cur is not None:
                cur.append(nm)
    return nodes, edges, groups


def op_dump_dot(w, ins):
    m = ins.get('m', 0)
    a = w.pick(ins['a'], m)
    if a is None:
        return 'skip'
    g = w.mgrs[m]
    sn = w.snapshot(m)
    roots = [a] + [w.pick(i, m) for i in ins.get('more', [])]
    rr = [node_of(s.ref) for s in roots]
    ext = ins.get('ext', 'dot')
    if w.real_dir is not None:
        ext = 'dot'          # no stub to capture what the dot program is fed
    fname = f'fig{w.step_no}.{ext}'
    ndots = len(w.fs.dot_inputs)
    if ins.get('filetype'):
        ok, v = call(w, g.api.dump, fname, [s.ref for s in roots], ext)
    else:
        ok, v = call(w, g.api.dump, fname, [s.ref for s in roots])
    expect_ok(w, ok, v, 'C18', f'dump {ext}')
    if ext == 'dot':
        if w.get_file(fname) is None:
            w.fail('wrong_result', 'dump(.dot) wrote no file', ['C18'])
        text = w.get_file(fname).decode('utf8')
    else:
        if len(w.fs.dot_inputs) != ndots + 1:
            w.fail('wrong_result', f'dump(.{ext}) did not run dot once', ['C18'])
        cmd, text = w.fs.dot_inputs[-1]
        if f'-T{ext}' not in cmd or fname not in cmd:
            w.fail('wrong_result', f'dump(.{ext}) ran {cmd}', ['C18'])
    nodes, edges, groups = parse_dot(text)
    reach = _reach(sn, rr)
    T = w.tt
    bddn = {k: v for k, v in nodes.items() if k.isdigit()}
    if {int(k) for k in bddn} != reach:
        w.fail('wrong_result', f'DOT: nodes {sorted(bddn)[:12]}, reachable {sorted(reach)[:12]}', ['C18'])
    # level groups: phantom node "L<i>" labelled with the level, rank=same
    lvl = {}
    for grp in groups:
        ph = [x for x in grp if x.startswith('L')]
        if len(ph) != 1:
            continue
        lab = nodes[ph[0]].get('label')
        for x in grp:
            if x.isdigit():
                lvl[int(x)] = lab
    var_of = {}
    for k, at in bddn.items():
        u = int(k)
        lab = at.get('label', '')
        if not lab.endswith('-' + k):
            w.fail('wrong_result', f'DOT: node {k} labelled {lab!r}', ['C18'])
        var_of[u] = lab[:-(len(k) + 1)]
        want_lv = sn.succ[u][0]
        if lvl.get(u) != str(want_lv):
            w.fail('wrong_result', f'DOT: node {k} drawn at level {lvl.get(u)!r}, is at {want_lv}', ['C18'])
    out = {}
    ref_edges = []
    for a_, b_, at in edges:
        if at.get('style') == 'invis':
            continue
        if a_.startswith('ref'):
            ref_edges.append((a_, b_, at))
            continue
        out.setdefault(int(a_), []).append((int(b_), at))
    den = {}
    for u in sorted(reach, key=lambda x: -sn.succ[x][0]):
        es = out.get(u, [])
        if not es:
            den[u] = T.mask
            continue
        then = [(v_, at) for v_, at in es if at.get('style') == 'solid']
        els = [(v_, at) for v_, at in es if at.get('style') == 'dashed']
        if len(then) != 1 or len(els) != 1:
            w.fail('wrong_result', f'DOT: node {u} has {len(then)} solid and {len(els)} dashed edges', ['C18'])
        dh = den[then[0][0]]
        if then[0][1].get('taillabel') == '-1':
            dh = T.neg(dh)
        dl = den[els[0][0]]
        if els[0][1].get('taillabel') == '-1':
            dl = T.neg(dl)
        k = w.name_idx.get(var_of[u])
        if k is None:
            w.fail('wrong_result', f'DOT: node {u} labelled with unknown variable {var_of[u]!r}', ['C18'])
        den[u] = T.ite(T.var[k], dh, dl)
    got_roots = {}
    # (the same root given twice is drawn as one node with two equal edges)
    kinds = collections.defaultdict(set)
    for a_, b_, at in ref_edges:
        kinds[a_].add((b_, at.get('taillabel')))
    for a_, b_, at in ref_edges:
        d = den[int(b_)]
        if at.get('taillabel') == '-1':
            d = T.neg(d)
        lab = nodes[a_].get('label')
        if len(kinds[a_]) != 1 or lab is None or '\x00' in lab:
            # one drawn reference node must stand for one reference
            got_roots[lab] = None
        else:
            got_roots[lab] = d
    for s, r in zip(roots, rr):
        if got_roots.get(f'@{r}') != s.tt:
            w.fail('wrong_result', f'DOT: external reference @{r} is missing, ambiguous, or evaluates to another function', ['C18'])
    w.stats['dump_' + ext] += 1


# ---------------------------------------------------------------------------
# generation
# ---------------------------------------------------------------------------
def _ri(r, n=1 << 16):
    return r.randrange(n)


def gen_support(w, r, cfg):
    return dict(op='support', a=_ri(r), how=r.randrange(3))


def gen_count(w, r, cfg):
    return dict(op='count', a=_ri(r), extra=r.choice([None, 0, 0, 1, 2, 3, -1, -2]), how=r.randrange(2))


def gen_pick(w, r, cfg):
    x = r.random()
    care = None if x < 0.35 else r.randrange(1 << w.nv)
    return dict(op='pick', a=_ri(r), care=care, superset=r.randrange(2), iter=r.random() < 0.7, how=r.randrange(2),
                cont=r.choice([0, 0, 1, 2]), overlap=r.choice([0, 0, 0, 1, 2, 3]), b=_ri(r),
                undeclared=r.choice([0, 0, 0, 1, 2]))


def gen_copy(w, r, cfg):
    how, shared = r.randrange(4), int(r.random() < 0.5)
    if cfg.get('copy_memo_run') and r.random() < 0.8:
        # a run whose copies share one memo per direction (autoref only)
        how, shared = 2, 1
    return dict(op='copy', m=r.randrange(2), a=_ri(r), how=how, shared=shared,
                more=[_ri(r) for _ in range(r.randint(0, 3))], keep=r.random() < cfg['keep_rate'])


def gen_copy_vars(w, r, cfg):
    return dict(op='copy_vars')


def gen_image(w, r, cfg):
    sn = w.snapshot(0)
    n = len(sn.order or [])
    pre = r.random() < 0.5
    npairs = r.choice([0, 1, 1, 1, 2, 2, 3])
    pairs = []
    for _ in range(npairs):
        if n >= 2 and (pre or r.random() < 0.6):
            i = r.randrange(n - 1)
            p = [i, i + 1]
            if r.random() < 0.5:
                p.reverse()
        else:
            p = [_ri(r, 64), _ri(r, 64)]
        pairs.append(p)
    return dict(op='image', pre=int(pre), a=_ri(r), b=_ri(r), pairs=pairs,
                qmask=r.randrange(1 << max(n, 1)), forall=int(r.random() < 0.4),
                levels=int(r.random() < 0.3), qlist=r.randrange(2), keep=r.random() < cfg['keep_rate'])


def gen_declare(w, r, cfg):
    return dict(op='declare', k=_ri(r, w.nv), how=r.randrange(3), m=0)


def gen_undeclare(w, r, cfg):
    return dict(op='undeclare', mask=r.choice([0, 0, r.randrange(1 << w.nv), r.randrange(1 << w.nv)]),
                twice=r.choice([0, 0, 0, 1, 2, 3]))


def gen_sizes(w, r, cfg):
    return dict(op='sizes', a=_ri(r), more=[_ri(r) for _ in range(r.randint(0, 2))])


def gen_to_nx(w, r, cfg):
    return dict(op='to_nx', a=_ri(r), more=[_ri(r) for _ in range(r.randint(0, 2))], cont=r.randrange(5))


def gen_dump_dot(w, r, cfg):
    return dict(op='dump_dot', a=_ri(r), more=[_ri(r) for _ in range(r.randint(0, 2))],
                ext=r.choice(['dot', 'dot', 'pdf', 'png', 'svg']), filetype=r.randrange(2))


for _n, _f, _p, _g in [
        ('support', op_support, 'C10', gen_support),
        ('count', op_count, 'C10', gen_count),
        ('pick', op_pick, 'C10', gen_pick),
        ('copy', op_copy, 'C11', gen_copy),
        ('copy_vars', op_copy_vars, 'C11', gen_copy_vars),
        ('fork', op_fork, 'C11', lambda w, r, cfg: dict(op='fork')),
        ('image', op_image, 'C13', gen_image),
        ('declare', op_declare, 'C14', gen_declare),
        ('undeclare', op_undeclare, 'C14', gen_undeclare),
        ('declare_many', op_declare_many, 'C14', lambda w, r, cfg: dict(op='declare_many', n=r.randint(2, 4), style=r.randrange(1 << 30), m=0)),
        ('sizes', op_sizes, 'C18', gen_sizes),
        ('to_nx', op_to_nx, 'C18', gen_to_nx),
        ('dump_dot', op_dump_dot, 'C18', gen_dump_dot)]:
    ops.register(_n, _f, _p)
    gen.register(_n, _g)
