"""C05: formulas.  ASTs are generated, rendered to text with the documented
precedence/associativity (doc.md "Syntax for quantified Boolean formulas"),
and the expected function is computed from the AST — no parser in the oracle.

AST (JSON lists):
  ['v', k]            variable (name index)
  ['c', 0|1]          constant
  ['r', slot]         @n reference to a live handle
  ['n', e]            negation
  ['b', conn, e1, e2] conn in and/or/xor/implies/equiv/diff
  ['i', a, b, c]      ite(a, b, c)
  ['q', 'A'|'E', [k...], e]
  ['s', [[new, old]...], e]     \\S new / old, ... : e
"""
import random

from ddsim import gen, ops
from ddsim.ops import call, declared, expect_ok, node_of, owner_tags, take_result

# precedence, lowest to highest (doc.md): ':' < '<=>' < '=>' < '-' < '#','^'
# < '\/' < '/\' < '=' < '~'
PREC = {'equiv': 1, 'implies': 2, 'diff': 3, 'xor': 4, 'or': 5, 'and': 6}
SPELL = {
    'and': ['/\\', '&', '&&'],
    'or': ['\\/', '|', '||'],
    'xor': ['#', '^'],
    'implies': ['=>', '->'],
    'equiv': ['<=>', '<->'],
    'diff': ['-'],
}
NOT_SPELL = ['~', '!']
CONNS = ['and', 'or', 'xor', 'implies', 'equiv', 'diff']


def eval_ast(w, m, e, dec):
    """Truth table of the formula, or None if it is not well-formed here."""
    T = w.tt
    t = e[0]
    if t == 'v':
        k = e[1] % w.nv
        return T.var[k] if k in dec else None
    if t == 'c':
        return T.mask if e[1] else 0
    if t == 'r':
        s = w.pick(e[1], m)
        if s is None:
            return None
        d = s.tt
        return T.neg(d) if len(e) > 2 and e[2] else d
    if t == 'n':
        a = eval_ast(w, m, e[1], dec)
        return None if a is None else T.neg(a)
    if t == 'b':
        a = eval_ast(w, m, e[2], dec)
        b = eval_ast(w, m, e[3], dec)
        if a is None or b is None:
            return None
        return ops.conn(T, e[1], a, b)
    if t == 'i':
        a, b, c = (eval_ast(w, m, x, dec) for x in e[1:4])
        if a is None or b is None or c is None:
            return None
        return T.ite(a, b, c)
    if t == 'q':
        ks = [k % w.nv for k in e[2]]
        if not ks or any(k not in dec for k in ks):
            return None
        a = eval_ast(w, m, e[3], dec)
        if a is None:
            return None
        return T.forall(a, ks) if e[1] == 'A' else T.exists(a, ks)
    if t == 's':
        ren = {}
        for new, old in e[1]:
            new %= w.nv
            old %= w.nv
            if new not in dec or old not in dec or old in ren:
                return None
            ren[old] = new
        if not ren:
            return None
        a = eval_ast(w, m, e[2], dec)
        if a is None:
            return None
        return T.rename(a, ren)
    return None


def _level(e):
    """Binding strength of the top operator (higher binds tighter)."""
    t = e[0]
    if t == 'b':
        return PREC[e[1]]
    if t in ('q', 's'):
        return 0
    if t == 'n':
        return 8
    return 9     # atoms


class Renderer:
    def __init__(self, w, m, style):
        self.w = w
        self.m = m
        self.r = random.Random(style)
        self.mode = self.r.choice(['min', 'min', 'min', 'extra', 'full'])
        self.comments = self.r.random() < 0.25
        self.fixed_spell = self.r.random() < 0.4
        self.tight = self.r.random() < 0.15

    def sp(self):
        r = self.r
        x = r.random()
        if self.comments and x < 0.12:
            body = r.choice(['c', 'note: a /\\ b', 'x => y', '', '(', 'multi\nline', '* banner *', '** guard **',
                             'a * b', '*', '**', ') (', '(* nested?'])
            if body.startswith('*') and r.random() < 0.5:
                return ' (*' + body + '*) '         # `(** guard ***)`: asterisks touch the delimiters
            return ' (* ' + body + ' *) '
        if self.comments and x < 0.18:
            return ' \\* ' + r.choice(['trailing', 'a \\/ b', '~ ~', '']) + '\n '
        if x < 0.75:
            return ' '
        if x < 0.85:
            return '  '
        if x < 0.9:
            return '\t'
        if x < 0.95:
            return '\n'
        return ' ' if not self.tight else ''

    def paren(self, s, need):
        if need or (self.mode == 'full') or (self.mode == 'extra' and self.r.random() < 0.3):
            s = '(' + self.osp() + s + self.osp() + ')'
            if self.mode == 'extra' and self.r.random() < 0.1:
                s = '(' + s + ')'
        return s

    def osp(self):
        return self.r.choice(['', '', ' '])

    def name(self, k):
        return self.w.names[k % self.w.nv]

    def render(self, e):
        t = e[0]
        r = self.r
        if t == 'v':
            return self.name(e[1])
        if t == 'c':
            if self.w.cfg.get('doc_cases') == 'lowercase':
                return 'true' if e[1] else 'false'
            return 'TRUE' if e[1] else 'FALSE'
        if t == 'r':
            s = self.w.pick(e[1], self.m)
            u = node_of(s.ref)
            if len(e) > 2 and e[2]:
                u = -u
            return '@' + r.choice(['', ' ']) + (('-' + r.choice(['', ' ']) + str(-u)) if u < 0 else str(u))
        if t == 'n':
            inner = self.render(e[1])
            need = _level(e[1]) < 8
            return r.choice(NOT_SPELL) + self.osp() + self.paren(inner, need)
        if t == 'b':
            L = PREC[e[1]]
            a = self.paren(self.render(e[2]), _level(e[2]) < L)      # left assoc
            b = self.paren(self.render(e[3]), _level(e[3]) <= L)
            sym = SPELL[e[1]][0] if self.fixed_spell else r.choice(SPELL[e[1]])
            return a + self.sp() + sym + self.sp() + b
        if t == 'i':
            a, b, c = (self.render(x) for x in e[1:4])
            return 'ite' + self.osp() + '(' + self.osp() + a + self.osp() + ',' + self.sp() + b + ',' + self.sp() + c + self.osp() + ')'
        if t == 'q':
            names = (',' + self.osp()).join(self.name(k) for k in e[2])
            return '\\' + e[1] + ' ' + names + self.osp() + ':' + self.sp() + self.render(e[3])
        if t == 's':
            subs = (',' + self.sp()).join(self.name(n) + self.osp() + '/' + self.osp() + self.name(o) for n, o in e[1])
            return '\\S ' + subs + self.osp() + ':' + self.sp() + self.render(e[2])
        raise ValueError(e)

    def top(self, e):
        s = self.render(e)
        if self.comments and self.r.random() < 0.3:
            s = self.r.choice(['(* lead *) ', '(** lead **) ', '(*** x ***)']) + s
        if self.comments and self.r.random() < 0.3:
            s = s + ' \\* end'
        return s


def op_add_expr(w, ins):
    m = ins.get('m', 0)
    g = w.mgrs[m]
    dec = declared(w, m)
    want = eval_ast(w, m, ins['ast'], dec)
    if want is None:
        return 'skip'
    text = Renderer(w, m, ins['style']).top(ins['ast'])
    ok, v = call(w, g.api.add_expr, text)
    take_result(w, m, ok, v, want, 'C05', ins.get('keep', True), f'add_expr({text!r})')
    w.stats['add_expr'] += 1


def op_to_expr(w, ins):
    m = ins.get('m', 0)
    a = w.pick(ins['a'], m)
    if a is None:
        return 'skip'
    g = w.mgrs[m]
    if g.flavor == 'autoref' and ins.get('how'):
        ok, s = call(w, lambda f: f.to_expr(), a.ref)
    else:
        ok, s = call(w, g.api.to_expr, a.ref)
    expect_ok(w, ok, s, 'C05', 'to_expr')
    if not isinstance(s, str):
        w.fail('wrong_result', f'to_expr returned {type(s).__name__}', ['C05'])
    ok, v = call(w, g.api.add_expr, s)
    sl = take_result(w, m, ok, v, a.tt, 'C05', ins.get('keep', False), f'add_expr(to_expr(u)) = add_expr({s[:80]!r})')
    tags = owner_tags(w, 'C05')
    if ok and node_of(v) != node_of(a.ref):
        w.fail('wrong_result', f'add_expr(to_expr(@{node_of(a.ref)})) is @{node_of(v)}', tags)
    w.stats['to_expr'] += 1


# ------------------------------------------------------------ generation
def gen_ast(r, w, depth, leaves=('v', 'v', 'v', 'c', 'r')):
    if depth <= 0 or r.random() < 0.25:
        t = r.choice(leaves)
        if t == 'v':
            return ['v', r.randrange(w.nv)]
        if t == 'c':
            return ['c', r.randrange(2)]
        return ['r', r.randrange(1 << 16), r.randrange(2)]
    x = r.random()
    if x < 0.55:
        return ['b', r.choice(CONNS), gen_ast(r, w, depth - 1, leaves), gen_ast(r, w, depth - 1, leaves)]
    if x < 0.7:
        return ['n', gen_ast(r, w, depth - 1, leaves)]
    if x < 0.8:
        return ['i', gen_ast(r, w, depth - 1, leaves), gen_ast(r, w, depth - 1, leaves), gen_ast(r, w, depth - 1, leaves)]
    if x < 0.92:
        n = r.randint(1, min(3, w.nv))
        return ['q', r.choice('AE'), r.sample(range(w.nv), n), gen_ast(r, w, depth - 1, leaves)]
    n = r.randint(1, min(2, w.nv))
    olds = r.sample(range(w.nv), n)
    return ['s', [[r.randrange(w.nv), o] for o in olds], gen_ast(r, w, depth - 1, leaves)]


def gen_flat3(r, w):
    """Two binary operators in a row, no parentheses: every ordered pair of
    precedence levels, in the shape the documented table prescribes."""
    c1, c2 = r.choice(CONNS), r.choice(CONNS)
    a, b, c = (gen_ast(r, w, 0, ('v', 'v', 'c', 'r')) for _ in range(3))
    if PREC[c1] >= PREC[c2]:
        return ['b', c2, ['b', c1, a, b], c]      # (a c1 b) c2 c
    return ['b', c1, a, ['b', c2, b, c]]          # a c1 (b c2 c)


def gen_add_expr(w, r, cfg):
    x = r.random()
    if x < 0.3:
        ast = gen_flat3(r, w)
    else:
        ast = gen_ast(r, w, r.choice([1, 2, 2, 3, 3, 4]))
    return dict(op='add_expr', ast=ast, style=r.randrange(1 << 30), m=0,
                keep=r.random() < cfg['keep_rate'])


def gen_to_expr(w, r, cfg):
    return dict(op='to_expr', a=r.randrange(1 << 16), how=r.randrange(2), keep=r.random() < 0.3)


ops.register('add_expr', op_add_expr, 'C05')
ops.register('to_expr', op_to_expr, 'C05')
gen.register('add_expr', gen_add_expr)
gen.register('to_expr', gen_to_expr)
