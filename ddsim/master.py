"""Master: batches, worker processes, verdict, evidence, known findings."""
import collections
import hashlib
import json
import os
import subprocess
import sys
import time

from ddsim import prng

HERE = os.path.dirname(os.path.abspath(__file__))
VERIF = os.path.dirname(HERE)
PY = sys.executable


def hashseed_for(vseed, prop, batch):
    return prng.mix(vseed, prop, 'hashseed', batch) % (2 ** 32)


def repo_state():
    src = os.environ.get('DD_SRC', '/repo')
    try:
        head = subprocess.run(['git', '-C', src, 'rev-parse', 'HEAD'], capture_output=True, text=True, timeout=20).stdout.strip()
        diff = subprocess.run(['git', '-C', src, 'diff', 'HEAD', '--', 'dd'], capture_output=True, text=True, timeout=20).stdout
        return dict(src=src, head=head, dirty_diff_sha=hashlib.sha256(diff.encode()).hexdigest()[:12] if diff else None)
    except Exception as e:
        return dict(src=src, error=str(e))


def load_known():
    p = os.path.join(VERIF, 'known_findings.json')
    if not os.path.exists(p):
        return []
    with open(p) as fd:
        return json.load(fd).get('findings', [])


def match_known(prop, failure, known):
    """An open finding matches if property, op, oracle and conditions agree."""
    for k in known:
        if k.get('status') != 'open':
            continue
        if k['property'] != prop:
            continue
        sig = k['signature']
        if 'op' in sig and failure['op'] not in sig['op']:
            continue
        if 'oracle' in sig and not any(failure['oracle'] == o or failure['oracle'].startswith(o) for o in sig['oracle']):
            continue
        if not set(sig.get('cond', [])) <= set(failure['cond']):
            continue
        if any(c in failure['cond'] for c in sig.get('not_cond', [])):
            continue
        if 'detail_has' in sig and sig['detail_has'] not in failure['detail']:
            continue
        return k
    return None


def run_batches(prop, vseed, tier, n_runs, batch_size, workers, outdir, wall_limit):
    """Run all batches; returns list of per-run results + list of harness errors."""
    os.makedirs(outdir, exist_ok=True)
    batches = []
    b = 0
    i = 0
    while i < n_runs:
        c = min(batch_size, n_runs - i)
        batches.append((b, i, c))
        i += c
        b += 1
    pending = list(batches)
    skipped = []
    running = []
    results = []
    herrs = []
    env_base = dict(os.environ)
    env_base['PYTHONDONTWRITEBYTECODE'] = '1'
    env_base['PYTHONPATH'] = VERIF
    env_base['DDSIM_OPEN_FINDINGS'] = ','.join(k['id'] + '@' + k['property'] for k in load_known() if k.get('status') == 'open')
    t_start = time.time()

    def launch(bt):
        bno, start, count = bt
        env = dict(env_base)
        env['PYTHONHASHSEED'] = str(hashseed_for(vseed, prop, bno))
        errp = os.path.join(outdir, f'.{prop}-{os.getpid()}-b{bno}.err')
        outp = os.path.join(outdir, f'.{prop}-{os.getpid()}-b{bno}.out')
        p = subprocess.Popen(
            [PY, '-X', 'faulthandler', '-m', 'ddsim.worker', prop, str(vseed), str(start), str(count), tier, outdir],
            stdout=open(outp, 'w'), stderr=open(errp, 'w'), env=env, cwd=VERIF)
        return dict(p=p, bt=bt, t0=time.time(), errp=errp, outp=outp)

    def harvest(r):
        try:
            with open(r['outp']) as fd:
                for line in fd:
                    if line.strip():
                        try:
                            results.append(json.loads(line))
                        except Exception:
                            herrs.append(f'batch {r["bt"]}: unparsable worker output {line[:120]!r}')
        except OSError as e:
            herrs.append(f'batch {r["bt"]}: {e}')
        for q in (r['outp'],):
            try:
                os.remove(q)
            except OSError:
                pass

    stop_after = int(os.environ.get('DDSIM_STOP_AFTER_FAILURES', '40'))
    known_ = load_known()
    while pending or running:
        if pending and stop_after and sum(
                1 for r_ in results
                if r_.get('failure') and prop in r_['failure']['props']
                and match_known(prop, r_['failure'], known_) is None) >= stop_after:
            skipped.extend(pending)
            pending = []
        while pending and len(running) < workers:
            running.append(launch(pending.pop(0)))
        time.sleep(0.05)
        now = time.time()
        for r in list(running):
            rc = r['p'].poll()
            if rc is not None:
                running.remove(r)
                harvest(r)
                if rc != 0:
                    try:
                        tail = open(r['errp']).read()[-1500:]
                    except Exception:
                        tail = ''
                    herrs.append(f'batch {r["bt"]} worker exit {rc}: {tail}')
                try:
                    if rc == 0 or os.path.getsize(r['errp']) == 0:
                        os.remove(r['errp'])
                except OSError:
                    pass
            elif now - r['t0'] > wall_limit:
                r['p'].kill()
                r['p'].wait()
                running.remove(r)
                harvest(r)
                herrs.append(f'batch {r["bt"]} exceeded wall limit {wall_limit}s and was killed')
    not_run = set()
    for bno, start, count in skipped:
        not_run.update(range(start, start + count))
    expected = {i for i in range(n_runs)} - not_run
    got = {r.get('idx') for r in results}
    missing = sorted(expected - got)
    if missing and not herrs:
        herrs.append(f'{len(missing)} runs produced no result, first {missing[:5]}')
    return results, herrs, time.time() - t_start


def check(prop, tier, vseed, n_runs, batch_size, workers, profile_info):
    t0 = time.time()
    outdir = os.path.join(VERIF, 'replays')
    known = load_known()
    results, herrs, wall = run_batches(prop, vseed, tier, n_runs, batch_size, workers, outdir,
                                       wall_limit=float(os.environ.get('DDSIM_BATCH_LIMIT', '2400')))
    results.sort(key=lambda r: r.get('idx', -1))
    stats = collections.Counter()
    fs = collections.Counter()
    sigs = set()
    nontrivial_sigs = set()
    steps = 0
    orders = 0
    hashseeds = set()
    violations = []
    known_hits = collections.OrderedDict()
    other = collections.Counter()
    samples = []
    for r in results:
        if r.get('harness_error'):
            herrs.append(f'run {r.get("idx")}: {r["harness_error"]}')
            continue
        stats.update(r.get('stats', {}))
        fs.update(r.get('fs', {}))
        steps += r.get('steps', 0)
        orders += r.get('orders', 0)
        hashseeds.add(r.get('hashseed'))
        sigs.add(r['sig'])
        if r.get('nontrivial'):
            nontrivial_sigs.add(r['sig'])
        if 'trace' in r and len(samples) < 3 and r.get('failure') is None:
            samples.append(dict(run_index=r['idx'], flavor=r['cfg']['flavor'], names=r['cfg']['names'],
                                trace=r['trace'][:40]))
        f = r.get('failure')
        if f is None:
            continue
        if prop in f['props']:
            k = match_known(prop, f, known)
            if k is not None:
                known_hits.setdefault(k['id'], dict(k=k, n=0, first=r.get('replay')))
                known_hits[k['id']]['n'] += 1
            else:
                violations.append(r)
        else:
            other['/'.join(f['props']) + ' ' + f['oracle'] + ' @' + str(f['op'])] += 1
    # verdict
    lines = []
    for kid, h in known_hits.items():
        lines.append(f'KNOWN-FINDING: property={prop} {kid}: {h["k"]["text"]} (seen in {h["n"]} runs; e.g. replay={h["first"]})')
    confirmed = []
    for r in violations[:3]:
        # replay the minimised file in a fresh interpreter before reporting
        rc, out = replay_file(r['replay'])
        confirmed.append((r, rc, out))
    evidence = dict(
        property_id=prop, tier=tier, seed=vseed, level='exploration',
        coverage=dict(
            evaluations=len(results),
            distinct_nontrivial=len(nontrivial_sigs),
            rule=profile_info['rule'],
            samples=samples or [dict(note='no sample trace retained in this run')],
            steps=steps,
            runs_per_hour=int(len(results) / max(wall, 1e-9) * 3600),
            steps_per_hour=int(steps / max(wall, 1e-9) * 3600),
            seeds=len(results),
            distinct_run_signatures=len(sigs),
            distinct_variable_orders_visited_sum=orders,
            pythonhashseeds=len(hashseeds),
            simulated_time='n/a: dd has no clock; runs are measured in logical steps',
            fired=dict(sorted((k, v) for k, v in stats.items() if not k.startswith('op:'))),
            ops=dict(sorted((k[3:], v) for k, v in stats.items() if k.startswith('op:'))),
            simfs=dict(fs),
            real_vs_stub=profile_info['real_vs_stub'],
            other_property_failures=dict(other),
            known_findings_hit={k: v['n'] for k, v in known_hits.items()},
            repo=repo_state(),
            workers=workers, batch_size=batch_size,
        ),
        assumptions=profile_info['assumptions'],
        wall_s=round(time.time() - t0, 2),
        violations=len(violations),
    )
    # runs against another tree than /repo (mutants, seeded changes) must not
    # overwrite the evidence of the tree under verification
    evdir = 'evidence'
    if os.path.abspath(os.environ.get('DD_SRC', '/repo')) != '/repo':
        evdir = 'evidence_scratch'
    os.makedirs(os.path.join(VERIF, evdir), exist_ok=True)
    evp = os.path.join(VERIF, evdir, f'{prop}.json')
    try:
        with open(evp, 'w') as fd:
            json.dump(evidence, fd, indent=1, sort_keys=True)
    except Exception as e:
        herrs.append(f'evidence could not be written: {e}')
    for ln in lines:
        print(ln)
    rc = 0
    if violations:
        for r, rrc, out in confirmed:
            f = r['failure']
            print(f'VIOLATION property={prop} replay={r["replay"]}')
            print(f'  run_index={r["idx"]} seed={vseed} hashseed={r["hashseed"]} op={f["op"]} oracle={f["oracle"]} '
                  f'steps={r.get("min_steps")} (from {r.get("steps")}) replay_reproduces={"yes" if rrc == 1 else "NO"}')
            print(f'  {f["detail"]}')
        if len(violations) > len(confirmed):
            print(f'  ... and {len(violations) - len(confirmed)} more failing runs (replay files under {outdir})')
        rc = 1
    if herrs:
        for h in herrs[:10]:
            print('HARNESS-ERROR', h)
        if rc == 0:
            rc = 2
    print(f'{prop} {tier}: runs={len(results)} steps={steps} wall={wall:.1f}s distinct_nontrivial={len(nontrivial_sigs)} '
          f'violations={len(violations)} known={sum(v["n"] for v in known_hits.values())} other_props={sum(other.values())} exit={rc}')
    return rc


def replay_file(path):
    with open(path) as fd:
        rp = json.load(fd)
    env = dict(os.environ)
    env['PYTHONHASHSEED'] = str(rp['pythonhashseed'])
    env['PYTHONDONTWRITEBYTECODE'] = '1'
    env['PYTHONPATH'] = VERIF
    p = subprocess.run([PY, '-X', 'faulthandler', '-m', 'ddsim.replay', path], env=env, cwd=VERIF,
                       capture_output=True, text=True, timeout=300)
    return p.returncode, p.stdout + p.stderr
