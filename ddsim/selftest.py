"""./check selftest [determinism|sensitivity|all] [--props C01,C02] [--runs N]

Determinism: every run is executed several times — same PYTHONHASHSEED at two
worker counts (physical digest over the whole event log must match), and under
another PYTHONHASHSEED (logical digest: trace, model tables, raised-or-not,
must match).

Sensitivity: each mutant in /verif/mutants/*.json is applied to a scratch
copy of /repo/dd (outside /repo and /verif), the quick check of its property
runs with DD_SRC=<scratch>, and must report VIOLATION; the scratch copy is
removed afterwards.
"""
import argparse
import functools
import json
import os
import shutil
import subprocess
import sys
import tempfile
import time

from ddsim import budgets, master

VERIF = master.VERIF
print = functools.partial(print, flush=True)


def determinism(props, n_runs):
    bad = 0
    for prop in props:
        out = tempfile.mkdtemp(prefix='ddsim_det_')
        try:
            a, ea, _ = master.run_batches(prop, 7, 'quick', n_runs, 25, 16, out, 600)
            b, eb, _ = master.run_batches(prop, 7, 'quick', n_runs, 25, 3, out, 600)
            c, ec, _ = master.run_batches(prop, 7, 'quick', n_runs, 10, 16, out, 600)  # other hash seeds
        finally:
            shutil.rmtree(out, ignore_errors=True)
        da = {r['idx']: r for r in a}
        db = {r['idx']: r for r in b}
        dc = {r['idx']: r for r in c}
        phys = sum(1 for i in da if i in db and da[i]['digest'] != db[i]['digest'])
        logi = sum(1 for i in da if i in dc and da[i]['ldigest'] != dc[i]['ldigest'])
        hs_differs = sum(1 for i in da if i in dc and da[i]['hashseed'] != dc[i]['hashseed'])
        phys_differs_under_other_hs = sum(1 for i in da if i in dc and da[i]['digest'] != dc[i]['digest'])
        errs = ea + eb + ec
        # judged: the physical digest at 16 vs 3 workers (same hash seed).  The
        # comparison under another hash seed is a reach measure of seam S3, not
        # a requirement (generation is lazy and sifting order legitimately
        # depends on the hash seed; DESIGN section 7)
        status = 'ok' if not (phys or errs) and len(da) == len(db) == len(dc) == n_runs else 'FAIL'
        if status != 'ok':
            bad += 1
        print(f'determinism {prop}: runs={n_runs} physical_mismatch(16 vs 3 workers)={phys} '
              f'[not judged: under another PYTHONHASHSEED {hs_differs} runs, logical digest differs in {logi}, '
              f'physical in {phys_differs_under_other_hs}] harness_errors={len(errs)} {status}')
        for e in errs[:3]:
            print('   ', e[:300])
    return bad


def load_mutants():
    d = os.path.join(VERIF, 'mutants')
    out = []
    for fn in sorted(os.listdir(d)):
        if fn.endswith('.json'):
            with open(os.path.join(d, fn)) as fd:
                m = json.load(fd)
            m['name'] = fn[:-5]
            out.append(m)
    return out


def apply_mutant(m, scratch):
    src = os.environ.get('DD_SRC', '/repo')
    shutil.copytree(os.path.join(src, 'dd'), os.path.join(scratch, 'dd'),
                    ignore=shutil.ignore_patterns('__pycache__', '*.pyx', '*.c', '*.pxd'))
    p = os.path.join(scratch, m['file'])
    s = open(p).read()
    if s.count(m['old']) != 1:
        return f'pattern occurs {s.count(m["old"])} times in {m["file"]}'
    open(p, 'w').write(s.replace(m['old'], m['new']))
    return None


def sensitivity(names, n_runs, with_tests=False):
    missed = 0
    for m in load_mutants():
        if names and m['name'] not in names and not any(p in names for p in m['props']):
            continue
        scratch = tempfile.mkdtemp(prefix='ddsim_mut_')
        try:
            err = apply_mutant(m, scratch)
            if err:
                print(f'sensitivity {m["name"]}: HARNESS-ERROR {err}')
                missed += 1
                continue
            caught = []
            t0 = time.time()
            for prop in m['props']:
                env = dict(os.environ)
                env['DD_SRC'] = scratch
                p = subprocess.run([os.path.join(VERIF, 'check'), prop, '--runs', str(n_runs)],
                                   env=env, cwd=VERIF, capture_output=True, text=True, timeout=1800)
                viol = [ln for ln in p.stdout.splitlines() if ln.startswith(f'VIOLATION property={prop} ')]
                if p.returncode == 1 and viol:
                    caught.append(prop)
            status = 'caught' if caught else 'MISSED'
            if not caught:
                missed += 1
            print(f'sensitivity {m["name"]}: {status} by {caught} of {m["props"]} in {time.time() - t0:.0f}s  -- {m["what"]}')
        finally:
            shutil.rmtree(scratch, ignore_errors=True)
    # (runs against another tree than /repo write their evidence to evidence_scratch/)
    return missed


def main(argv):
    ap = argparse.ArgumentParser()
    ap.add_argument('what', nargs='?', default='all')
    ap.add_argument('--props', default='')
    ap.add_argument('--runs', type=int, default=None)
    ap.add_argument('--only', default='')
    a = ap.parse_args(argv)
    props = [p for p in a.props.split(',') if p] or budgets.PROPS
    rc = 0
    if a.what in ('determinism', 'all'):
        if determinism(props, a.runs or 200):
            rc = 1
    if a.what in ('sensitivity', 'all'):
        names = [x for x in a.only.split(',') if x] or ([p for p in a.props.split(',') if p])
        if sensitivity(names, a.runs or 3200):
            rc = 1
    return rc


if __name__ == '__main__':
    sys.exit(main(sys.argv[1:]))
