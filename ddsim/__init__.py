"""ddsim: deterministic simulation with fault injection for tulip-control/dd.

See /verif/DESIGN.md.  Nothing in this package imports `dd` at import time;
`ddsim.seams.load_dd()` imports it from `$DD_SRC` (default /repo).
"""
