"""Per-property workload profiles (DESIGN §6) and swarm configuration."""
import os

from ddsim import gen, prng
from ddsim import ops_dense, ops_expr, ops_io, ops_mdd, ops_misc, ops_reject  # noqa: F401  (register ops)

# dense workloads: (n variables, size of the enumerated space, items per run)
DENSE = {
    'C01': dict(n=3, space=256 * 256, per=24),
    'C02': dict(n=4, space=65536, per=24),
    'C03': dict(n=4, space=65536, per=5),
    'C04': dict(n=4, space=65536, per=3),
    'C10': dict(n=4, space=65536, per=5),
    'C18': dict(n=4, space=65536, per=10),
    'C13': dict(n=3, space=256 * 16, per=5, bg=['gc', 'finalize']),
    'C06': dict(n=3, space=5 * 8 ** 5, per=12, flavor='raw', bg=[]),
    'C07': dict(n=3, space=6 * 256, per=3, bg=['gc', 'finalize']),
    'C05': dict(n=3, space=36 * 4 * 216, per=30),
}
DENSE_RATE = dict(quick=0.08, thorough=0.35)
TAIL = dict(add_expr=0.4, to_expr=0.3, support=0.3, count=0.3, pick=0.3, copy=0.4, dump=0.3, load=0.4,
            manager_roundtrip=0.15, image=0.3, declare=0.4, undeclare=0.3, declare_many=0.15, sizes=0.3,
            to_nx=0.2, dump_dot=0.2, traverse=0.3, fop=0.4, reject=0.4, fork=0.15, probe=0.4, redo=0.4,
            quant=0.4, let=0.4, cube=0.3, find_or_add=0.3, eqcheck=0.3, mdd=0.2, bdd_to_mdd=0.05, dddmp=0.05,
            pairs=0.2, reorder=0.3, swap=0.4, gc=0.4, nest=0.4, mk_struct=0.3)

_w = gen._w

PROFILES = {
    # connectives against warm caches, recycled numbers, post-swap tables
    'C01': dict(weights=_w(apply=22, ite=8, fop=8, cube=3, quant=1, let=1,
                           gc=5, swap=4, reorder=1, redo=10, probe=6, fork=1),
                flavors=['raw', 'autoref'], nv=(2, 8), steps=(20, 120), m1_rate=0.15,
                alloc_faults='light'),
    # equal functions arriving by different routes at different times
    'C02': dict(weights=_w(apply=10, ite=4, eqcheck=8, find_or_add=8, let=8,
                           quant=2, add_expr=5, to_expr=2, gc=4, swap=4,
                           reorder=1, declare=2, undeclare=1, copy=3, dump=1, load=2,
                           sizes=3, fork=1),
                flavors=['raw', 'autoref'], nv=(1, 6), steps=(20, 120),
                m1_rate=0.15, big_start=0.12),
    'C03': dict(weights=_w(quant=24, apply=18, ite=4, gc=3, swap=3, reorder=1, redo=8, probe=8), probe_second=['quant'],
                flavors=['raw', 'autoref'], nv=(1, 7), steps=(15, 80), alloc_faults=True, alloc_focus='quant'),
    'C04': dict(weights=_w(let=24, apply=18, ite=4, gc=3, swap=3, reorder=1, redo=8, probe=8), probe_second=['let'],
                flavors=['raw', 'autoref'], nv=(1, 7), steps=(15, 80), alloc_faults=True, alloc_focus='let'),
    'C05': dict(weights=_w(add_expr=24, to_expr=8, apply=6, quant=1, let=1, nest=4,
                           gc=2, swap=3, reorder=1, reject=3),
                flavors=['raw', 'autoref'], nv=(1, 7), steps=(15, 80),
                m1_rate=0.2, reject_kinds=['formula_name', 'formula_syntax', 'formula_node'],
                doc_cases=0.08),
    'C06': dict(weights=_w(apply=12, drop=12, dup=5, gc=10, swap=5, reorder=2,
                           pairs=1, find_or_add=3, redo=10, probe=6, reject=2),
                flavors=['raw'], nv=(2, 7), steps=(20, 160), reject_kinds=['decref_zero']),
    'C07': dict(weights=_w(apply=8, drop=3, gc=2, swap=14, reorder=6,
                           pairs=4, eqcheck=2, mk_struct=5),
                flavors=['raw', 'autoref'], nv=(1, 8), steps=(15, 100),
                sift_tiny=True),
    'C08': dict(weights=_w(apply=8, fop=10, drop=14, dup=5, traverse=8,
                           gc=5, reorder=3, finalize=4, arm_final=4,
                           configure=1, arm=2, quant=2, let=2, dump=1, load=2, reject=2, copy=2, nest=6),
                flavors=['autoref'], nv=(2, 7), steps=(20, 140), copy_copy=0.1, disk_faults=0.3, m1_rate=0.15,
                explicit_release=0.12,
                reject_kinds=['ctor_unknown', 'foreign', 'unknown_node', 'formula_syntax', 'copy_missing_var'],
                line_mode=dict(quick=0.1, thorough=0.15)),
    'C09': dict(weights=_w(apply=12, ite=4, fop=4, quant=5, let=10, cube=3,
                           var=6, find_or_add=2, add_expr=4, drop=5, gc=1,
                           swap=0, reorder=0, pairs=0, configure=1, arm=14,
                           knobs=1, copy=3, load=3, dump=2, image=5, nest=6, bdd_to_mdd=2, mk_struct=2, support=3, count=1, pick=1, to_expr=1, sizes=1),
                flavors=['raw', 'autoref'], nv=(3, 9), steps=(20, 120),
                dyn=True, m1_rate=0.1),
    'C10': dict(weights=_w(support=8, count=8, pick=10, apply=8, gc=1, swap=3, reorder=1, declare=2, undeclare=3),
                flavors=['raw', 'autoref'], nv=(1, 6), steps=(15, 70)),
    'C11': dict(weights=_w(copy=16, copy_vars=1, fork=1, apply=8, declare=3, gc=3, swap=5,
                           reorder=1, drop=6),
                flavors=['raw', 'autoref'], nv=(1, 6), steps=(20, 100),
                m1_rate=0.4, copy_memo_run=0.25),
    'C12': dict(weights=_w(dump=10, load=14, manager_roundtrip=2, apply=8,
                           declare=2, gc=2, swap=4, reorder=1, drop=5),
                flavors=['raw', 'autoref'], nv=(1, 6), steps=(20, 90),
                m1_rate=0.3, disk_faults=0.5, dyn_rate=0.15, real_disk=dict(quick=0.03, thorough=0.06)),
    'C13': dict(weights=_w(image=20, apply=10, pairs=4, swap=3, gc=1, reorder=0, declare=2, undeclare=3, support=2),
                flavors=['raw', 'autoref'], nv=(2, 7), steps=(15, 70)),
    'C14': dict(weights=_w(declare=10, declare_many=3, undeclare=10, apply=8, drop=8, gc=6,
                           swap=4, reject=4, var=8),
                flavors=['raw'], nv=(1, 6), steps=(20, 100),
                declared0=True, reject_kinds=['level', 'undeclare', 'swap_bad']),
    'C15': dict(weights=_w(mdd=30, bdd_to_mdd=3, apply=6, swap=1, gc=1, reorder=0, pairs=0),
                flavors=['raw'], nv=(1, 6), steps=(20, 90), dyn_rate=0.5),
    'C16': dict(weights=_w(dddmp=10, apply=10, swap=4, declare=1, gc=1),
                flavors=['raw'], nv=(1, 5), steps=(15, 60)),
    'C17': dict(weights=_w(reject=18, apply=8, add_expr=3, load=4, dump=3, gc=3,
                           swap=2, reorder=1, declare=2, drop=5, arm=0,
                           configure=0, ite=2, quant=2, let=3, cube=1, find_or_add=2, fop=2, copy=2, image=2),
                alloc_faults=True,
                flavors=['raw', 'autoref'], nv=(1, 6), steps=(20, 100),
                m1_rate=0.2, disk_faults=0.9, dyn_rate=0.35, spare_rate=0.5,
                reject_kinds=ops_reject.KINDS + ['load_clash', 'load_clash']),
    'C18': dict(weights=_w(traverse=10, sizes=8, to_nx=5, dump_dot=5, apply=10,
                           gc=2, swap=3, reorder=1),
                flavors=['raw', 'autoref'], nv=(1, 6), steps=(15, 70)),
}


# position sweeps (thorough tier; the crash-point idiom): 16 consecutive run
# indices out of every 64 share one seeded prefix history and one final
# operation, and differ only in where the fault is placed
SWEEP = {
    'C09': 'arm',      # the trigger fires after j = 0..15 further creations
    'C08': 'final',    # finalizers run at the k-th pre-emption point
    'C12': 'disk',     # byte / line position of a disk fault
    'C17': 'disk',
}
SWEEP_POS = [0, 1, 2, 3, 5, 8, 13, 21, 34, 55, 89, 144, 233, 377, 610, 987]


def make_cfg(prop, seed, tier='quick', idx=0, vseed=0):
    """Swarm configuration of one run: a pure function of its arguments."""
    if tier == 'thorough' and prop in SWEEP and idx % 64 < 16:
        gseed = prng.mix(vseed, prop, 'sweep', idx // 64)
        cfg = _make_cfg(prop, gseed, tier, idx)
        cfg.pop('dense', None)
        cfg['sweep'] = dict(kind=SWEEP[prop], index=idx % 64, group=idx // 64)
        cfg['gen_seed'] = gseed
        if SWEEP[prop] == 'arm':
            cfg['dyn'] = True
            cfg['weights']['arm'] = 0
            if not cfg.get('knobs'):
                cfg['knobs'] = dict(starts=1, factor=2, growth=2)
        if SWEEP[prop] == 'disk':
            cfg['disk_faults'] = False
        return cfg
    return _make_cfg(prop, seed, tier, idx)


def _make_cfg(prop, seed, tier='quick', idx=0):
    P = PROFILES[prop]
    r = prng.stream(seed, 'cfg')
    nv = r.randint(*P['nv'])
    if r.random() < P.get('wide', 0.06):
        # a wide manager: levels 8 and above exist (small sets of small ints
        # iterate in increasing order only below the size of their table)
        nv = r.choice([9, 10, 10])
    names = r.sample(gen.NAME_POOL, nv)
    doc_cases = None
    if P.get('doc_cases'):
        x = r.random()
        if x < P['doc_cases']:
            doc_cases = 'dotted'
            names[r.randrange(nv)] = r.choice(gen.DOTTED_POOL)
        elif x < 2 * P['doc_cases']:
            doc_cases = 'lowercase'
    flavor = r.choice(P['flavors'])
    weights = dict(P['weights'])
    # swarm: switch off a random subset of the optional op kinds
    optional = [k for k in weights if weights[k] > 0 and k not in ('var', 'apply', 'drop')]
    for k in optional:
        if r.random() < 0.18:
            weights[k] = 0
    # a thin tail of everything else, so that any operation can interleave
    # with the profile's focus (cross-feature histories)
    if r.random() < 0.7:
        for k, wt in TAIL.items():
            if weights.get(k, 0) == 0 and k in gen.GEN:
                weights[k] = wt
    # the profile's heavy hitters survive most of the time
    heavy = sorted(P['weights'], key=lambda k: -P['weights'][k])[:3]
    for k in heavy:
        if weights[k] == 0 and r.random() < 0.8:
            weights[k] = P['weights'][k]
    lo, hi = P['steps']
    if tier == 'thorough':
        hi = int(hi * 1.6)
    dyn = False
    if P.get('dyn'):
        dyn = r.random() < 0.9
    elif P.get('dyn_rate'):
        dyn = r.random() < P['dyn_rate']
    if dyn and not P.get('dyn'):
        weights['arm'] = 6
        weights['configure'] = 1
    cfg = dict(
        prop=prop, nv=nv, names=names, flavor=flavor, weights=weights,
        steps=r.randint(lo, hi), n_mgrs=2,
        declared=(r.randint(0, nv) if P.get('declared0') else
                  (r.randint(1, max(1, nv - 1)) if r.random() < P.get('spare_rate', 0.0) else
                   (nv if r.random() < 0.8 else r.randint(0, nv)))),
        keep_rate=r.choice([0.5, 0.7, 0.9, 1.0]),
        max_slots=r.choice([6, 10, 16, 24]),
        dyn=dyn,
        final_mode=r.choice(['now', 'mixed', 'late']),
        knobs=None,
        m1_rate=P.get('m1_rate', 0.0),
        disk_faults=r.random() < P.get('disk_faults', 0.0),
        fault_rate=r.choice([0.15, 0.3, 0.5]),
        reject_kinds=P.get('reject_kinds'), probe_second=P.get('probe_second'),
        copy_copy=bool(P.get('copy_copy')) and r.random() < P['copy_copy'],
        copy_memo_run=bool(P.get('copy_memo_run')) and r.random() < P['copy_memo_run'],
        alloc_rate=(r.choice([0.0, 0.0, 0.0, 0.15] if P.get('alloc_faults') == 'light' else [0.0, 0.1, 0.25])
                    if P.get('alloc_faults') else 0.0),
        explicit_release=P.get('explicit_release', 0.0),
        alloc_focus=P.get('alloc_focus'),
        big_start=(r.randrange(1, 1 << 30) if r.random() < P.get('big_start', 0.05) else None),
        sift_tiny=bool(P.get('sift_tiny')), doc_cases=doc_cases,
        line_mode=bool(P.get('line_mode')) and r.random() < P['line_mode'].get(tier, 0.0),
        ctor_perm=(r.randrange(1, 1 << 30) if r.random() < 0.15 else None),
    )
    if cfg['copy_memo_run']:
        cfg['flavor'] = 'autoref'       # the generic copier speaks the Function interface
        cfg['weights']['gc'] = max(cfg['weights']['gc'], 6)
    if prop == 'C09' and r.random() < 0.1:
        # natural triggering at the default constants: no armed threshold,
        # a bigger manager, everything kept
        cfg['natural'] = True
        cfg['dyn'] = True
        cfg['knobs'] = dict(starts=100, factor=2, growth=2)
        cfg['weights']['arm'] = 0
        cfg['weights']['knobs'] = 0
        cfg['weights']['drop'] = 1
        cfg['weights']['gc'] = 0
        cfg['nv'] = nv = max(nv, 9)
        if len(cfg['names']) < nv:
            pool = [x for x in gen.NAME_POOL if x not in cfg['names']]
            cfg['names'] = cfg['names'] + r.sample(pool, nv - len(cfg['names']))
        cfg['declared'] = nv
        cfg['steps'] = 260
        cfg['max_slots'] = 64
        cfg['keep_rate'] = 1.0
    if P.get('real_disk') and r.random() < P['real_disk'].get(tier, 0.0):
        cfg['real_disk'] = True
        cfg['disk_faults'] = False
    if prop in DENSE and r.random() < DENSE_RATE.get(tier, 0.0):
        d = dict(DENSE[prop])
        d.update(kind=prop, block=idx, bg_rate=r.choice([0.0, 0.1, 0.2, 0.35]), pos_x=0, pos_xp=1,
                 f=r.randrange(256), g=r.randrange(256), route=r.randrange(4))
        if d.get('flavor'):
            cfg['flavor'] = d['flavor']
        if prop in ('C02', 'C03', 'C04', 'C10', 'C18') and r.random() < 0.5:
            d['n'] = r.choice([1, 2, 3])
            d['space'] = 1 << (1 << d['n'])
        cfg['dense'] = d
        cfg['nv'] = max(cfg['nv'], d['n'] + (1 if r.random() < 0.5 else 0))
        if len(cfg['names']) < cfg['nv']:
            pool = [x for x in gen.NAME_POOL if x not in cfg['names']]
            cfg['names'] = cfg['names'] + r.sample(pool, cfg['nv'] - len(cfg['names']))
        cfg['declared'] = cfg['nv']
        cfg['dyn'] = False
    # open known findings: most runs steer around the trigger so that
    # exploration continues past it; the rest confirm it is still the same
    openf = [x for x in os.environ.get('DDSIM_OPEN_FINDINGS', '').split(',') if x]
    # (the 10 % that confirm a finding are only needed in the check of the
    # property it belongs to; known_findings ids are named <...>, their
    # property is looked up by the master and passed as id@property)
    cfg['avoid'] = [x.split('@')[0] for x in openf
                    if r.random() < 0.9 or (x.split('@') + [prop])[1] != prop]
    if dyn:
        cfg['knobs'] = dict(
            starts=r.choice([1, 2, 5, 20, 100]),
            factor=r.choice([1.01, 1.25, 1.5, 2, 2, 3]),
            growth=r.choice([1, 1.5, 2, 2, 3]))
    return cfg
