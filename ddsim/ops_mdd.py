"""C15: MDD manager sub-simulation and bdd_to_mdd.

MDD model: a function of integer variables is an int used as a truth table
over the mixed-radix index of the integer assignment.
"""
import collections

from ddsim import gen, ops, seams
from ddsim.ops import call, expect_ok, node_of, owner_tags


class MddWorld:
    """One MDD manager with user-side handles and a ledger."""

    def __init__(self, w, sizes):
        M = seams.DD.mdd
        self.sizes = list(sizes)              # domain size per level
        self.n = len(sizes)
        self.names = [f'i{j}' for j in range(self.n)]
        dvars = {self.names[j]: dict(level=j, len=sizes[j]) for j in range(self.n)}
        self.mdd = M.MDD(dvars)
        self.base = self.mdd.ref(1)
        self.N = 1
        for s in sizes:
            self.N *= s
        self.mask = (1 << self.N) - 1
        self.slots = []                       # (ref, table)
        # value of variable j at assignment index a
        self.stride = []
        st = 1
        for s in sizes:
            self.stride.append(st)
            st *= s

    def val(self, a, j):
        return (a // self.stride[j]) % self.sizes[j]

    def lit(self, j, v):
        t = 0
        for a in range(self.N):
            if self.val(a, j) == v:
                t |= 1 << a
        return t

    def den_all(self):
        """Denotation of every stored node, by an independent walk."""
        m = self.mdd
        succ = {u: m._succ[u] for u in m}
        den = {1: self.mask}
        lits = {}
        for u in sorted(succ, key=lambda x: -succ[x][0]):
            if u == 1:
                continue
            t = succ[u]
            lv = t[0]
            d = 0
            for v, c in enumerate(t[1:]):
                dc = den[abs(c)]
                if c < 0:
                    dc ^= self.mask
                if (lv, v) not in lits:
                    lits[(lv, v)] = self.lit(lv, v)
                d |= lits[(lv, v)] & dc
            den[u] = d
        return succ, den


def _mw(w, ins=None):
    if w.mdd is None:
        if ins is None or 'sizes' not in ins:
            return None
        w.mdd = MddWorld(w, ins['sizes'])
    return w.mdd


def mdd_check(w, mw, after_full_gc=False):
    m = mw.mdd
    tags = ['C15']
    try:
        succ, den = mw.den_all()
    except Exception as e:
        w.fail('I-struct', f'MDD: stored table unreadable: {e!r}', tags)
    # structure
    uniq = {}
    for u, t in succ.items():
        if u == 1:
            continue
        lv, kids = t[0], t[1:]
        if len(kids) != mw.sizes[lv]:
            w.fail('I-struct', f'MDD node {u}: {len(kids)} successors at level {lv}', tags)
        if kids[0] < 0:
            w.fail('I-struct', f'MDD node {u}: first edge complemented', tags)
        if len(set(kids)) == 1:
            w.fail('I-struct', f'MDD node {u}: all successors identical', tags)
        for c in kids:
            if abs(c) not in succ or succ[abs(c)][0] <= lv:
                w.fail('I-struct', f'MDD node {u}: bad child {c}', tags)
        if t in uniq:
            w.fail('I-struct', f'MDD nodes {uniq[t]} and {u} are both {t}', tags)
        uniq[t] = u
    # canonicity
    seen = {}
    for u, d in den.items():
        key = min(d, d ^ mw.mask)
        if key in seen:
            w.fail('I-canon', f'MDD nodes {seen[key]} and {u} denote the same function (mod complement)', tags)
        seen[key] = u
    # handles
    for r, tt in mw.slots:
        d = den.get(abs(r))
        if d is None:
            w.fail('I-den', f'MDD handle @{r} points to a freed node', tags)
        if (d ^ mw.mask if r < 0 else d) != tt:
            w.fail('I-den', f'MDD handle @{r} changed its function', tags)
    # counts
    ind = collections.Counter()
    for u, t in succ.items():
        if u == 1:
            continue
        for c in t[1:]:
            ind[abs(c)] += 1
    led = collections.Counter(abs(r) for r, _ in mw.slots)
    for u in succ:
        want = ind[u] + led[u] + (mw.base if u == 1 else 0)
        if m.ref(u) != want:
            w.fail('I-count', f'MDD node {u}: count {m.ref(u)}, expected in-edges {ind[u]} + external {led[u]}', tags)
    if after_full_gc:
        reach = {1}
        st = [abs(r) for r, _ in mw.slots]
        while st:
            u = st.pop()
            if u in reach:
                continue
            reach.add(u)
            st += [abs(c) for c in succ[u][1:]]
        if set(succ) != reach:
            w.fail('I-exact', f'MDD after collection: stored {sorted(succ)[:10]}, reachable {sorted(reach)[:10]}', tags)


def op_mdd(w, ins):
    mw = _mw(w, ins)
    if mw is None:
        return 'skip'
    m = mw.mdd
    k = ins['k']
    tags = ['C15']

    def pick(i):
        if not mw.slots:
            return None
        return mw.slots[i % len(mw.slots)]

    def result(ok, v, tt, what, keep=True):
        if not ok:
            w.fail('exception:' + v[0], f'MDD {what} raised {v[0]}: {v[1]}', tags)
        if not isinstance(v, int) or abs(v) not in m:
            w.fail('bad_reference', f'MDD {what} returned {v!r}', tags)
        succ, den = mw.den_all()
        d = den[abs(v)]
        if v < 0:
            d ^= mw.mask
        if d != tt:
            w.fail('wrong_result', f'MDD {what}: returned @{v} denotes another function than the model', tags)
        if keep:
            m.incref(v)
            mw.slots.append((v, tt))

    if k == 'new':
        # a node over constants: "variable lv takes a value in S"
        lv = ins['level'] % mw.n
        bits = ins['bits']
        kids = [1 if (bits >> v) & 1 else -1 for v in range(mw.sizes[lv])]
        tt = 0
        for v, c in enumerate(kids):
            if c == 1:
                tt |= mw.lit(lv, v)
        ok, v = call(w, m.find_or_add, lv, *kids)
        result(ok, v, tt, f'find_or_add({lv}, {kids})')
    elif k == 'foa':
        lv = ins['level'] % mw.n
        succ, den = mw.den_all()
        good = [(r, tt) for r, tt in mw.slots if succ[abs(r)][0] > lv]
        if not good:
            return 'skip'
        kids = [good[i % len(good)] for i in ins['kids'][:mw.sizes[lv]]]
        while len(kids) < mw.sizes[lv]:
            kids.append(good[0])
        tt = 0
        for v, (r, t) in enumerate(kids):
            tt |= mw.lit(lv, v) & t
        ok, v = call(w, m.find_or_add, lv, *[r for r, _ in kids])
        result(ok, v, tt, 'find_or_add')
    elif k == 'ite':
        a, b, c = pick(ins['a']), pick(ins['b']), pick(ins['c'])
        if a is None:
            return 'skip'
        ok, v = call(w, m.ite, a[0], b[0], c[0])
        result(ok, v, (a[1] & b[1]) | ((mw.mask ^ a[1]) & c[1]), 'ite', ins.get('keep', True))
    elif k == 'apply':
        a, b = pick(ins['a']), pick(ins['b'])
        if a is None:
            return 'skip'
        sym = ins['sym']
        if sym in ops.UNARY:
            ok, v = call(w, m.apply, sym, a[0])
            result(ok, v, mw.mask ^ a[1], f'apply {sym!r}', ins.get('keep', True))
        elif sym == 'ite':
            c = pick(ins['c'])
            ok, v = call(w, m.apply, 'ite', a[0], b[0], c[0])
            result(ok, v, (a[1] & b[1]) | ((mw.mask ^ a[1]) & c[1]), 'apply ite', ins.get('keep', True))
        else:
            cn = ops.SYM2CONN[sym]

            class _T:
                mask = mw.mask

                @staticmethod
                def implies(x, y):
                    return (mw.mask ^ x) | y

                @staticmethod
                def equiv(x, y):
                    return mw.mask ^ (x ^ y)

                @staticmethod
                def diff(x, y):
                    return x & (mw.mask ^ y)
            ok, v = call(w, m.apply, sym, a[0], b[0])
            result(ok, v, ops.conn(_T, cn, a[1], b[1]), f'apply {sym!r}', ins.get('keep', True))
    elif k == 'probe':
        # directed interleaving (P-cache steering, DESIGN 4.3): an operand that
        # nobody references is used once, collected, its number is recycled
        # by another function, and the same triple of integers is asked again
        u = pick(ins['a'])
        if u is None:
            return 'skip'
        sym = ins['sym'] if ins['sym'] in ops.SYM2CONN else 'and'
        cn = ops.SYM2CONN[sym]

        class _T2:
            mask = mw.mask
            implies = staticmethod(lambda x, y: (mw.mask ^ x) | y)
            equiv = staticmethod(lambda x, y: mw.mask ^ (x ^ y))
            diff = staticmethod(lambda x, y: x & (mw.mask ^ y))

        def lit_node(level, bits):
            lv = level % mw.n
            kids = [1 if (bits >> v) & 1 else -1 for v in range(mw.sizes[lv])]
            tt = 0
            for v, c in enumerate(kids):
                if c == 1:
                    tt |= mw.lit(lv, v)
            return lv, kids, tt
        lv, kids, gt = lit_node(ins['level'], ins['bits'])
        ok, g = call(w, m.find_or_add, lv, *kids)
        if not ok:
            w.fail('exception:' + g[0], f'MDD find_or_add raised {g[1]}', tags)
        if m.ref(g) > 0 or abs(g) == 1:
            return 'skip'          # somebody holds it: no recycling possible
        ok, v = call(w, m.apply, sym, g, u[0])
        result(ok, v, ops.conn(_T2, cn, gt, u[1]), f'apply {sym!r} (probe, first)')
        ok, v = call(w, m.collect_garbage)
        expect_ok(w, ok, v, 'C15', 'MDD collect_garbage')
        if abs(g) in m:
            mdd_check(w, mw, after_full_gc=True)
            return
        w.stats['mdd_probe_freed'] += 1
        for bits2 in ins['bits2']:
            lv2, kids2, ht = lit_node(ins['level'], bits2)
            if kids2 == kids:
                continue
            ok, h = call(w, m.find_or_add, lv2, *kids2)
            if not ok:
                w.fail('exception:' + h[0], f'MDD find_or_add raised {h[1]}', tags)
            if abs(h) == abs(g):
                w.stats['mdd_probe_recycled'] += 1
                # the same integers as in the first call: `g` itself, which
                # now is `h` or its complement
                want = ops.conn(_T2, cn, ht if g == h else mw.mask ^ ht, u[1])
                ok, v = call(w, m.apply, sym, g, u[0])
                result(ok, v, want, f'apply {sym!r} (probe, same integers after recycling)', keep=False)
                break
    elif k == 'drop':
        if not mw.slots:
            return 'skip'
        r, _ = mw.slots.pop(ins['a'] % len(mw.slots))
        ok, v = call(w, m.decref, r)
        expect_ok(w, ok, v, 'C15', 'MDD decref')
    elif k == 'dup':
        s = pick(ins['a'])
        if s is None:
            return 'skip'
        ok, v = call(w, m.incref, s[0])
        expect_ok(w, ok, v, 'C15', 'MDD incref')
        mw.slots.append(s)
    elif k == 'gcr':
        # rooted collection: arbitrary stored nodes, possibly complemented
        succ0, _ = mw.den_all()
        nodes = sorted(succ0)
        roots = [nodes[i % len(nodes)] for i in ins['kids'][:3]]
        roots = [(-u if (ins['bits'] >> j) & 1 and u != 1 else u) for j, u in enumerate(roots)]
        cnt = {u: m.ref(u) for u in succ0}
        must = set()
        st = [abs(u) for u in roots if abs(u) != 1 and cnt[abs(u)] == 0]
        while st:
            u = st.pop()
            if u in must:
                continue
            must.add(u)
            for c in succ0[u][1:]:
                c = abs(c)
                cnt[c] -= 1
                if cnt[c] == 0 and c != 1:
                    st.append(c)
        ok, v = call(w, m.collect_garbage, roots)
        expect_ok(w, ok, v, 'C15', f'MDD collect_garbage({roots})')
        left = must & set(m)
        if left:
            w.fail('rooted_gc_kept', f'MDD collect_garbage({roots}) kept {sorted(left)[:6]}', ['C15'])
        w.stats['mdd_gc_rooted'] += 1
    elif k == 'gc':
        ok, v = call(w, m.collect_garbage)
        expect_ok(w, ok, v, 'C15', 'MDD collect_garbage')
        mdd_check(w, mw, after_full_gc=True)
        w.stats['mdd_gc'] += 1
        return
    else:
        return 'skip'
    mdd_check(w, mw)
    w.stats['mdd_' + k] += 1


def op_bdd_to_mdd(w, ins):
    """bdd_to_mdd on M0 (raw flavour, reordering off)."""
    g = w.mgrs[0]
    if g.flavor != 'raw':
        return 'skip'
    sn = w.snapshot(0)
    order = list(sn.order or [])
    n = len(order)
    if n == 0 or n > 9:
        return 'skip'
    # group the declared bits into integer variables of 1..3 bits
    keys = ins['perm']
    bits = sorted(range(n), key=lambda i: (keys[i % len(keys)], i))
    groups = []
    i = 0
    gi = 0
    sizes = ins['gsizes']
    while i < n:
        s = max(1, min(3, sizes[gi % len(sizes)]))
        groups.append([order[b] for b in bits[i:i + s]])
        i += s
        gi += 1
    if len(groups) > 3:
        # merge the tail so that at most 3 integer variables remain
        flat = [b for grp in groups[2:] for b in grp]
        if len(flat) > 3:
            return 'skip'
        groups = groups[:2] + [flat]
    lv = sorted(range(len(groups)), key=lambda j: (keys[(j + 3) % len(keys)], j))
    dvars = {}
    for pos, j in enumerate(lv):
        dvars[f'I{j}'] = dict(level=pos, len=2 ** len(groups[j]), bitnames=list(groups[j]))
    M = seams.DD.mdd
    ok, v = call(w, M.bdd_to_mdd, g.raw, dvars)
    expect_ok(w, ok, v, 'C15', f'bdd_to_mdd({dvars})')
    mdd, umap = v
    del v
    tags = owner_tags(w, 'C15')
    T = w.tt
    ivars = [f'I{j}' for j in lv]          # by MDD level
    doms = [dvars[nm]['len'] for nm in ivars]

    def eval_mdd(r, asg):
        neg = r < 0
        u = abs(r)
        while u != 1:
            t = mdd._succ[u]
            c = t[1 + asg[t[0]]]
            if c < 0:
                neg = not neg
            u = abs(c)
        return not neg

    # every integer assignment <-> bit assignment (first listed bit = LSB)
    total = 1
    for d in doms:
        total *= d
    for s in w.slots_of(0):
        u = node_of(s.ref)
        if abs(u) not in umap:
            w.fail('wrong_result', f'bdd_to_mdd: referenced node {abs(u)} has no MDD counterpart', tags)
        r = umap[abs(u)]
        if u < 0:
            r = -r
        for a in range(total):
            asg = []
            x = a
            for d in doms:
                asg.append(x % d)
                x //= d
            idx = 0
            for pos, nm in enumerate(ivars):
                for bi, bit in enumerate(dvars[nm]['bitnames']):
                    if (asg[pos] >> bi) & 1:
                        idx |= 1 << w.name_idx[bit]
            want = (s.tt >> idx) & 1
            if eval_mdd(r, asg) != bool(want):
                w.fail('wrong_result', f'bdd_to_mdd: MDD of @{u} differs from the BDD at integer assignment {dict(zip(ivars, asg))}', tags)
    w.stats['bdd_to_mdd'] += 1


def _ri(r, n=1 << 16):
    return r.randrange(n)


def gen_mdd(w, r, cfg):
    if w.mdd is None:
        n = r.randint(1, 3)
        return dict(op='mdd', k='new', sizes=[r.choice([2, 2, 3, 4, 5]) for _ in range(n)],
                    level=_ri(r, 8), bits=r.randrange(1, 31))
    k = r.choice(['new', 'new', 'foa', 'foa', 'ite', 'ite', 'apply', 'apply', 'apply', 'drop', 'drop', 'drop',
                  'dup', 'gc', 'gc', 'gcr', 'redo', 'redo', 'probe', 'probe'])
    if len(w.mdd.slots) > 10:
        k = r.choice(['drop', 'drop', 'gc', k])
    hist = getattr(w.mdd, 'hist', None)
    if hist is None:
        hist = w.mdd.hist = []
    if k == 'redo':
        # the same operand slots again: after a collection and number reuse
        # in between, a remembered answer would be stale
        if hist:
            d = dict(hist[-1 - min(int(r.random() ** 2 * len(hist)), len(hist) - 1)])
            d['keep'] = r.random() < 0.3
            return d
        k = 'apply'
    d = dict(op='mdd', k=k, a=_ri(r), b=_ri(r), c=_ri(r), level=_ri(r, 8), bits=r.randrange(1, 31),
             bits2=[r.randrange(1, 31) for _ in range(4)], sym=r.choice(ops.ALL_BINARY_SYMS),
             kids=[_ri(r) for _ in range(5)], keep=r.random() < 0.8)
    if k == 'apply':
        x = r.random()
        d['sym'] = r.choice(ops.UNARY) if x < 0.1 else ('ite' if x < 0.2 else r.choice(ops.ALL_BINARY_SYMS))
    if k in ('apply', 'ite'):
        hist.append(d)
        if len(hist) > 30:
            del hist[0]
    return d


def gen_bdd_to_mdd(w, r, cfg):
    return dict(op='bdd_to_mdd', perm=[_ri(r, 1000) for _ in range(12)], gsizes=[r.randint(1, 3) for _ in range(4)])


ops.register('mdd', op_mdd, 'C15')
ops.register('bdd_to_mdd', op_bdd_to_mdd, 'C15')
gen.register('mdd', gen_mdd)
gen.register('bdd_to_mdd', gen_bdd_to_mdd)
