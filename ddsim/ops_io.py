"""C12 dump/load (pickle, JSON, whole manager) through SimFS with faults;
C16 DDDMP files written by an independent writer and loaded by dd.dddmp."""
import errno

from ddsim import gen, ops, seams, simfs
from ddsim.ops import call, declared, expect_ok, node_of, owner_tags, take_result
from ddsim.world import Mgr

SHELVE_DIR = '__shelve__'


def _files(w):
    if not hasattr(w, 'files'):
        w.files = {}
    return w.files


def _arm(w, fault):
    """Arm one disk fault for the next dd call. Returns a disarm closure."""
    if not fault or w.real_dir is not None:
        return lambda: False
    kind = fault['kind']
    if kind == 'stale':
        w.fs.dirs.add(SHELVE_DIR)

        def done():
            w.fs.dirs.discard(SHELVE_DIR)
            w.stats['fault_stale_dir'] += 1
            return True
        return done
    err = {'open': [errno.ENOENT, errno.EACCES, errno.EMFILE],
           'write': [errno.ENOSPC, errno.EIO],
           'read': [errno.EIO], 'shelf': [errno.EIO], 'dot': [errno.EIO]}[kind]
    f = simfs.Fault(kind, fault.get('pos', 0), err[fault.get('err', 0) % len(err)])
    w.fs.arm(f)

    def done():
        w.fs.disarm()
        if f.fired:
            w.stats['fault_' + kind] += 1
        return f.fired
    return done


def op_dump(w, ins):
    m = ins.get('m', 0)
    g = w.mgrs[m]
    fmt = ins['fmt']
    if fmt == 'json' and g.flavor != 'autoref':
        return 'skip'
    files = _files(w)
    cand = w.slots_of(m)
    roots_idx = ins.get('roots')
    if roots_idx is None:
        if fmt == 'json':
            return 'skip'
        items = None
        arg = None
        cont = 'none'
    else:
        if not cand or (not roots_idx and fmt != 'pickle'):
            return 'skip'
        # (an empty list of roots is legal for a pickle)
        sl = [cand[i % len(cand)] for i in roots_idx]
        if ins.get('as_dict'):
            keys = [f'r{j}' for j in range(len(sl))]
            arg = {k: s.ref for k, s in zip(keys, sl)}
            items = [(k, s.tt) for k, s in zip(keys, sl)]
            cont = 'dict'
        else:
            arg = [s.ref for s in sl]
            items = [(j, s.tt) for j, s in enumerate(sl)]
            cont = 'list'
    fname = f"f{ins['file']}.{'p' if fmt == 'pickle' else 'json'}"
    # file names differ in case too (the extension test is case-insensitive,
    # the path is not): `F1.p` and `f1.p` are two files
    case = ins.get('case', 0)
    if case == 1:
        fname = fname[0].upper() + fname[1:]
    elif case == 2:
        fname = fname.split('.')[0] + '.' + fname.split('.')[1].upper()
    order = list(w.snapshot(m).order)
    fault = ins.get('fault')
    if fault and fault['kind'] in ('stale', 'shelf') and fmt != 'json':
        fault = None
    on_disk_before = w.get_file(fname)
    done = _arm(w, fault)
    if ins.get('filetype') and fmt == 'json':
        ok, v = call(w, g.api.dump, fname, arg, 'json')
    elif ins.get('filetype') and fmt == 'pickle':
        ok, v = call(w, g.api.dump, fname, arg, 'pickle')
    else:
        ok, v = call(w, g.api.dump, fname, arg)
    del arg
    fired = done()
    if fired:
        w.cur_info['fault'] = fault['kind']
    if not ok:
        if not fired:
            w.fail('exception:' + v[0], f'dump {fmt} without any disk fault raised {v[0]}: {v[1]}', owner_tags(w, 'C12'))
        w.cur_info['expected_raise'] = True
        # a torn file may be left behind; it may fail to load, never load wrong
        if w.get_file(fname) == on_disk_before:
            pass        # the disk was not touched: the old file, if any, stands
        elif w.get_file(fname) is not None and items is not None:
            files[fname] = dict(fmt=fmt, cont=cont, items=items, ok=False, order=order, nodes=None)
        else:
            files.pop(fname, None)
        w.stats['dump_failed'] += 1
        return
    files[fname] = dict(fmt=fmt, cont=cont, items=items, ok=True, order=order)
    w.stats['dump_' + fmt] += 1


def _pickle_refusal_legit(file_order, tvars):
    """levels=True: refusal is legitimate iff a file variable's level clashes."""
    lvl_to_var = {l: v for v, l in tvars.items()}
    for i, var in enumerate(file_order):
        if var in tvars:
            if tvars[var] != i:
                return True
        elif i in lvl_to_var:
            return True
        else:
            tvars = dict(tvars)
            tvars[var] = i
            lvl_to_var[i] = var
    return False


def op_load(w, ins):
    files = _files(w)
    names = sorted(files)
    if not names:
        return 'skip'
    if ins.get('only'):
        names = [n for n in names if n.startswith(ins['only'] + '.')] or names
    fname = names[ins['file'] % len(names)]
    rec = files[fname]
    fmt = rec['fmt']
    src = ins.get('m', 0)
    tgt = ins.get('target', 0)
    if tgt == 2:
        if w.slots_of(1) or len(w.mgrs) < 2:
            return 'skip'
        w.new_manager(1, [])
        t = 1
    elif tgt == 1:
        if len(w.mgrs) < 2:
            return 'skip'
        t = 1
    else:
        t = 0
    g = w.mgrs[t]
    if fmt == 'json' and g.flavor != 'autoref':
        return 'skip'
    D = seams.DD
    levels = bool(ins.get('levels', True))
    load_order = bool(ins.get('load_order'))
    tvars = dict(g.raw.vars)
    fault = ins.get('fault')
    if fault and fault['kind'] in ('stale', 'shelf') and fmt != 'json':
        fault = None
    if ins.get('dyn') is not None and w.cfg.get('dyn'):
        # the receiving manager reorders dynamically, and its trigger is due
        # after `dyn` more nodes: inside the load, if the load creates them
        g.api.configure(reordering=True)
        if ops.arm_manager(w, g, ins['dyn']) != 'skip':
            w.stats['load_armed'] += 1
    done = _arm(w, fault)
    if fmt == 'pickle':
        if ins.get('positional'):
            ok, v = call(w, g.api.load, fname, levels)
        else:
            ok, v = call(w, g.api.load, fname, levels=levels)
    else:
        if load_order:
            ok, v = call(w, D.copy.load_json, fname, g.api, True)
        elif ins.get('direct'):
            ok, v = call(w, D.copy.load_json, fname, g.api)
        else:
            ok, v = call(w, g.api.load, fname)
    fired = done()
    if fired:
        w.cur_info['fault'] = fault['kind']
    w.stats['load_' + fmt] += 1
    if not ok:
        legit = fired or not rec['ok']
        if not legit:
            if fmt == 'pickle' and levels:
                legit = _pickle_refusal_legit(rec['order'], tvars)
            elif fmt == 'json' and load_order:
                legit = bool(set(tvars) - set(rec['order']))
        if not legit:
            w.fail('exception:' + v[0], f'load of a good {fmt} file (levels={levels}, load_order={load_order}) raised {v[0]}: {v[1]}', owner_tags(w, 'C12'))
        w.cur_info['expected_raise'] = True
        w.stats['load_refused'] += 1
        return
    tags = owner_tags(w, 'C12')
    if rec['cont'] == 'none':
        del v
        return
    if rec['cont'] == 'dict':
        if not isinstance(v, dict) or sorted(v) != sorted(k for k, _ in rec['items']):
            w.fail('wrong_result', f'load returned {type(v).__name__} with keys {sorted(v) if isinstance(v, dict) else None}', tags)
        got = [v[k] for k, _ in rec['items']]
    else:
        if not isinstance(v, list) or len(v) != len(rec['items']):
            w.fail('wrong_result', f'load returned {type(v).__name__} of length {len(v) if hasattr(v, "__len__") else None}', tags)
        got = list(v)
    del v
    # judge all before taking references (raw results are not yet referenced)
    for r, (k, tt) in zip(got, rec['items']):
        if not ops.ref_ok(w, t, r):
            w.fail('bad_reference', f'load: root {k!r} is not a reference of the target', tags)
        if w.den(t, r) != tt:
            w.fail('wrong_result', f'load: root {k!r} denotes another function than was dumped', tags)
    for r, (k, tt) in zip(got, rec['items']):
        take_result(w, t, True, r, tt, 'C12', what=f'load root {k!r}')
    del got
    if load_order and fmt == 'json':
        after = w.snapshot(t).order
        if after != rec['order']:
            w.fail('wrong_order', f'load_json(load_order=True): order {after}, file has {rec["order"]}', tags)
    w.stats['load_ok'] += 1
    if tvars and [nm for nm in sorted(tvars, key=tvars.get) if nm in rec['order']] != [nm for nm in rec['order'] if nm in tvars]:
        w.stats['load_other_order'] += 1


def op_manager_roundtrip(w, ins):
    m = ins.get('m', 0)
    g = w.mgrs[m]
    if g.flavor != 'raw':
        return 'skip'
    fname = f"mgr{ins['file']}.p"
    ok, v = call(w, g.raw._dump_manager, fname)
    expect_ok(w, ok, v, 'C12', '_dump_manager')
    B = seams.DD.bdd.BDD
    ok, nb = call(w, B._load_manager, fname)
    expect_ok(w, ok, nb, 'C12', '_load_manager')
    tmp = Mgr(99, 'raw', nb, nb)
    a, b = w.snapshot(m), w.snapshot(tmp)
    tags = owner_tags(w, 'C12')
    if b.problems:
        w.fail(b.problems[0][0], f'loaded manager: {b.problems[0][1]}', tags + ['C02'])
    if a.order != b.order or a.succ != b.succ or a.refs != b.refs:
        w.fail('wrong_result', 'whole-manager pickle does not reproduce the manager (order, nodes or counts differ)', tags)
    for s in w.slots_of(m):
        if w.den(tmp, s.ref) != s.tt:
            w.fail('wrong_result', 'reference denotes another function in the reloaded manager', tags)
    # "reproduces the manager": the reloaded manager can go on working.  It
    # replaces M1 when nobody holds M1 (its counts already include one
    # reference per handle on M0, so each of those is a handle on it too);
    # otherwise it does a few operations here and is released.
    if m == 0 and len(w.mgrs) > 1 and not w.slots_of(1):
        w.finalize()
        for key in [k for k in w.copy_caches if 1 in k]:
            del w.copy_caches[key]
        tmp.idx = 1
        tmp.term_base = g.term_base
        w.mgrs[1] = tmp
        for s in list(w.slots_of(0)):
            w.add_slot(1, s.ref, s.tt)
        w.touch()
        w.stats['manager_roundtrip_adopted'] += 1
    else:
        sl = w.slots_of(m)
        T = w.tt
        for i in range(min(3, len(sl))):
            a_, b_ = sl[i], sl[(i * 7 + 3) % len(sl)]
            ok, v = call(w, nb.apply, 'xor', a_.ref, b_.ref)
            if not ok:
                w.fail('exception:' + v[0], f'reloaded manager: apply raised {v[0]}: {v[1]}', tags)
            tmp.snap = None
            if w.den(tmp, v) != (a_.tt ^ b_.tt):
                w.fail('wrong_result', 'reloaded manager: apply returned a wrong function', tags)
        for s in w.slots_of(m):
            nb.decref(s.ref)
        del tmp, nb
    w.stats['manager_roundtrip'] += 1


# ---------------------------------------------------------------------------
# C16: DDDMP
# ---------------------------------------------------------------------------
def write_dddmp(w, m, roots, style):
    """Serialise the diagrams of `roots` (slots of manager m) as CUDD would.

    Independent of dd.dddmp.  Returns the text.  `style` fixes numbering,
    varinfo mode, and which optional header lines appear.
    """
    import random
    r = random.Random(style)
    sn = w.snapshot(m)
    order = sn.order
    rr = [node_of(s.ref) for s in roots]
    # reachable nodes
    reach = set()
    st = [abs(u) for u in rr]
    while st:
        u = st.pop()
        if u in reach:
            continue
        reach.add(u)
        i, lo, hi = sn.succ[u]
        if lo is not None:
            st += [abs(lo), abs(hi)]
    reach.add(1)
    # children before parents, otherwise in seeded random order
    placed = []
    pos = {}
    remaining = set(reach)
    while remaining:
        ready = sorted(u for u in remaining
                       if sn.succ[u][1] is None or (abs(sn.succ[u][1]) in pos and abs(sn.succ[u][2]) in pos))
        u = r.choice(ready)
        pos[u] = len(placed) + 1
        placed.append(u)
        remaining.discard(u)
    sup_levels = sorted({sn.succ[u][0] for u in reach if u != 1})
    nvars = len(order)
    mode = r.choice([0, 1, 3])
    with_ordered = mode == 3 or r.random() < 0.5
    # variable ids: position of the name in the universe, listed increasing
    sup = sorted(sup_levels, key=lambda l: w.name_idx[order[l]])
    ids = [w.name_idx[order[l]] for l in sup]
    permids = list(sup)
    L = []
    L.append('# written by ddsim')
    L.append('.ver DDDMP-2.0')
    L.append('.mode A')
    L.append(f'.varinfo {mode}')
    if r.random() < 0.5:
        L.append('.dd sim')
    L.append(f'.nnodes {len(placed)}')
    L.append(f'.nvars {nvars}')
    L.append(f'.nsuppvars {len(sup)}')
    if with_ordered:
        L.append('.orderedvarnames ' + ' '.join(order))
    L.append('.suppvarnames ' + ' '.join(order[l] for l in sup))
    L.append('.ids ' + ' '.join(map(str, ids)))
    L.append('.permids ' + ' '.join(map(str, permids)))
    if r.random() < 0.5:
        L.append('.auxids ' + ' '.join(map(str, ids)))
    L.append(f'.nroots {len(rr)}')
    L.append('.rootids ' + ' '.join(str(pos[abs(u)] * (1 if u > 0 else -1)) for u in rr))
    L.append('.nodes')
    idx_in_sup = {l: j for j, l in enumerate(sup)}
    for u in placed:
        i, lo, hi = sn.succ[u]
        if lo is None:
            L.append(f'{pos[u]} T 1 0 0')
            continue
        if mode == 0:
            info = str(w.name_idx[order[i]])
        elif mode == 1:
            info = str(i)
        else:
            info = order[i]
        then = pos[hi]
        els = pos[abs(lo)] * (1 if lo > 0 else -1)
        L.append(f'{pos[u]} {info} {idx_in_sup[i]} {then} {els}')
    L.append('.end')
    gaps = permids != list(range(len(permids)))
    return '\n'.join(L) + '\n', dict(mode=mode, ordered=with_ordered, gaps=gaps, sup=[order[l] for l in sup],
                                     rootids=[pos[abs(u)] * (1 if u > 0 else -1) for u in rr])


def op_dddmp(w, ins):
    m = ins.get('m', 0)
    g = w.mgrs[m]
    cand = w.slots_of(m)
    if not cand:
        return 'skip'
    roots = [cand[i % len(cand)] for i in ins['roots']]
    # the format has no way to say "constant": CUDD files have >= 1 variable
    roots = [s for s in roots if abs(node_of(s.ref)) != 1]
    if not roots:
        return 'skip'
    text, meta = write_dddmp(w, m, roots, ins['style'])
    # half of the files go to one and the same path, rewritten each time
    fname = 'd.dddmp' if ins.get('same_path') else f'd{w.step_no}.dddmp'
    w.put_file(fname, text.encode('utf8'))
    D = seams.DD
    torn = ins.get('torn')
    tname = fname if (torn and torn.get('same_path')) else 'torn.dddmp'
    if torn:
        # an unreadable file first (torn at a seeded byte, or a read error at
        # a seeded position), written in another style: whatever the loader
        # makes of it must not leak into the load of the good file
        t2, _ = write_dddmp(w, m, roots[:1] if torn.get('one') else roots, torn['style'])
        raw2 = t2.encode('utf8')
        # (with `same_path`: the reader retries the same path once the
        # writer has finished)
        if torn.get('read_fault'):
            w.put_file(tname, raw2)
            done = _arm(w, dict(kind='read', pos=torn['cut'] % (len(raw2) + 1)))
            ok2, nb2 = call(w, D.dddmp.load, tname)
            done()
        else:
            w.put_file(tname, raw2[:torn['cut'] % len(raw2)])
            ok2, nb2 = call(w, D.dddmp.load, tname)
        w.put_file(fname, text.encode('utf8'))
        w.stats['dddmp_torn_refused' if not ok2 else 'dddmp_torn_accepted'] += 1
        del nb2
        w.cur_info.pop('raised', None)
    ok, nb = call(w, D.dddmp.load, fname)
    expect_ok(w, ok, nb, 'C16', ('after a refused load of a torn file: ' if torn else '') + f'dddmp.load (varinfo {meta["mode"]}, orderedvarnames {meta["ordered"]}, gaps {meta["gaps"]})')
    tmp = Mgr(98, 'raw', nb, nb)
    sn = w.snapshot(tmp)
    if sn.problems:
        w.fail(sn.problems[0][0], f'manager returned by dddmp.load: {sn.problems[0][1]}', ['C16', 'C02'])
    got = []
    for u in nb.roots:
        d = w.den(tmp, u) if isinstance(u, int) and abs(u) in sn.succ else None
        got.append(d)
    want = sorted({s.tt for s in roots})
    if None in got or sorted(set(got)) != want:
        verbatim = sorted(nb.roots) == sorted(set(meta['rootids']))
        if verbatim and 'dddmp-roots-are-file-ids' in w.cfg.get('avoid', ()):
            # known finding (known_findings.json): the file's root ids are
            # handed over unmapped.  Keep exploring past it with the weaker
            # oracle "every root function of the file exists in the manager".
            T = w.tt
            have = set()
            for u, d in sn.den.items():
                have.add(d)
                have.add(d ^ T.mask)
            for s in roots:
                if s.tt not in have:
                    w.fail('wrong_result', 'dddmp.load: a root function of the file is not represented in the returned manager', ['C16'])
            w.stats['dddmp_known_roots_unmapped_skipped'] += 1
        else:
            w.fail('wrong_result', f'dddmp.load: roots {sorted(nb.roots)} do not denote the functions of the file '
                   f'({"they are the node ids of the file, unmapped; " if verbatim else ""}'
                   f'varinfo {meta["mode"]}, orderedvarnames {meta["ordered"]}, gaps {meta["gaps"]})', ['C16'],
                   cond=['roots_verbatim_file_ids'] if verbatim else [])
    if meta['ordered']:
        if sn.order != w.snapshot(m).order:
            w.fail('wrong_order', f'dddmp.load: order {sn.order}, file says {w.snapshot(m).order}', ['C16'])
    else:
        if sn.order != meta['sup'] and sorted(sn.order) == sorted(meta['sup']):
            want_order = [nm for nm in w.snapshot(m).order if nm in meta['sup']]
            if sn.order != want_order:
                w.fail('wrong_order', f'dddmp.load: order {sn.order}, file says {want_order}', ['C16'])
    w.stats['dddmp_mode%d' % meta['mode']] += 1
    if meta['gaps']:
        w.stats['dddmp_gaps'] += 1
    del tmp, nb


# ---------------------------------------------------------------------------
def _ri(r, n=1 << 16):
    return r.randrange(n)


def _gen_fault(r, cfg, kinds):
    if not cfg.get('disk_faults') or r.random() > cfg.get('fault_rate', 0.3):
        return None
    kind = r.choice(kinds)
    pos = r.choice([0, 0, 1, 2, 5, 10, 20, 40, 80, 160, 320, 640])
    if kind == 'shelf':
        pos = r.choice([0, 0, 1, 2, 4])
    return dict(kind=kind, pos=pos, err=r.randrange(3))


def gen_dump(w, r, cfg):
    fmts = ['pickle'] if w.flavor == 'raw' else ['pickle', 'json', 'json']
    fmt = r.choice(fmts)
    roots = None if (fmt == 'pickle' and r.random() < 0.12) else [_ri(r) for _ in range(r.randint(1, 4))]
    if fmt == 'pickle' and roots is not None and r.random() < 0.04:
        roots = []
    kinds = ['open', 'write', 'write'] + (['stale', 'shelf'] if fmt == 'json' else [])
    return dict(op='dump', m=0 if r.random() < 0.8 else 1, fmt=fmt, roots=roots,
                as_dict=r.randrange(2), file=r.randrange(4), filetype=r.randrange(2),
                case=r.choice([0, 0, 0, 1, 1, 2]),
                fault=_gen_fault(r, cfg, kinds))


def gen_load(w, r, cfg):
    return dict(op='load', file=_ri(r), target=r.choice([0, 0, 1, 1, 2]),
                levels=int(r.random() < 0.6), load_order=int(r.random() < 0.25),
                positional=r.randrange(2), direct=r.randrange(2),
                dyn=(r.choice([0, 1, 2, 3, 5, 8, 13]) if cfg.get('dyn') and r.random() < 0.5 else None),
                fault=_gen_fault(r, cfg, ['open', 'read', 'read', 'stale', 'shelf']))


def gen_manager_roundtrip(w, r, cfg):
    return dict(op='manager_roundtrip', file=r.randrange(2))


def gen_dddmp(w, r, cfg):
    torn = None
    if r.random() < 0.3:
        torn = dict(style=r.randrange(1 << 30), cut=r.randrange(1 << 12), read_fault=r.randrange(2), one=r.randrange(2),
                    same_path=r.randrange(2))
    return dict(op='dddmp', roots=[_ri(r) for _ in range(r.randint(1, 3))], style=r.randrange(1 << 30), torn=torn,
                same_path=r.randrange(2))


for _n, _f, _p, _g in [
        ('dump', op_dump, 'C12', gen_dump),
        ('load', op_load, 'C12', gen_load),
        ('manager_roundtrip', op_manager_roundtrip, 'C12', gen_manager_roundtrip),
        ('dddmp', op_dddmp, 'C16', gen_dddmp)]:
    ops.register(_n, _f, _p)
    gen.register(_n, _g)
