"""Reference model: Boolean functions as truth tables (Python ints).

A function over the universe of `nv` *names* (index 0..nv-1) is an int with
2**nv bits; bit `a` is the value under the assignment in which name `k` has
value `(a >> k) & 1`.  Independent of variable order, declared variables and
node numbers.  Shares no code with `dd`.
"""


class TT:
    """Truth-table algebra over `nv` names."""

    def __init__(self, nv):
        self.nv = nv
        self.size = 1 << nv
        self.mask = (1 << self.size) - 1
        self.var = []
        for k in range(nv):
            # bits `a` with (a >> k) & 1
            block = ((1 << (1 << k)) - 1) << (1 << k)   # period 2**(k+1)
            period = 1 << (k + 1)
            t = 0
            for off in range(0, self.size, period):
                t |= block << off
            self.var.append(t)
        self.true = self.mask
        self.false = 0

    # connectives
    def neg(self, a):
        return self.mask ^ a

    def ite(self, g, a, b):
        return (g & a) | ((self.mask ^ g) & b)

    def implies(self, a, b):
        return (self.mask ^ a) | b

    def equiv(self, a, b):
        return self.mask ^ (a ^ b)

    def diff(self, a, b):
        return a & (self.mask ^ b)

    # cofactors
    def cof(self, a, k, val):
        """Cofactor of `a` w.r.t. name k = val (result independent of k)."""
        v = self.var[k]
        sh = 1 << k
        if val:
            hi = a & v
            return hi | (hi >> sh)
        lo = a & (self.mask ^ v)
        return lo | (lo << sh)

    def exists(self, a, ks):
        for k in ks:
            a = self.cof(a, k, 0) | self.cof(a, k, 1)
        return a

    def forall(self, a, ks):
        for k in ks:
            a = self.cof(a, k, 0) & self.cof(a, k, 1)
        return a

    def depends(self, a, k):
        return self.cof(a, k, 0) != self.cof(a, k, 1)

    def support(self, a):
        return [k for k in range(self.nv) if self.depends(a, k)]

    def compose(self, a, subs):
        """Simultaneous substitution: `subs` maps name index -> table."""
        if not subs:
            return a
        ks = sorted(subs)
        # Shannon expansion over the substituted names, evaluated bottom-up
        res = 0
        n = len(ks)
        for bits in range(1 << n):
            c = a
            cond = self.mask
            for j, k in enumerate(ks):
                val = (bits >> j) & 1
                c = self.cof(c, k, val)
                g = subs[k]
                cond &= g if val else (self.mask ^ g)
                if not cond:
                    break
            if cond:
                res |= cond & c
        return res

    def rename(self, a, ren):
        """Simultaneous renaming: `ren` maps name index -> name index."""
        return self.compose(a, {k: self.var[v] for k, v in ren.items()})

    def count(self, a):
        return bin(a).count('1')

    def count_over(self, a, nvars):
        """Number of models over `nvars` variables (>= |support|)."""
        s = len(self.support(a))
        c = self.count(a) >> (self.nv - s)   # models over the support
        return c << (nvars - s)

    def eval(self, a, assignment):
        """`assignment`: dict name index -> bool, total over the support."""
        idx = 0
        for k, v in assignment.items():
            if v:
                idx |= 1 << k
        # names not mentioned are set to 0; caller guarantees irrelevance
        return (a >> idx) & 1

    def cube(self, assignment):
        """Table of the conjunction of literals {k: bool}."""
        t = self.mask
        for k, v in assignment.items():
            t &= self.var[k] if v else (self.mask ^ self.var[k])
        return t

    def canonical_size(self, roots, order):
        """Number of nodes (terminal included) of the shared reduced ordered
        diagram with complemented edges for tables `roots` under `order`
        (list of name indices, top first).  Independent second model.

        A node = class {f, ~f} of a sub-function obtained by fixing a prefix
        of the order, that depends on the next variable in its own support.
        """
        seen = set()
        stack = list(roots)
        nodes = set()
        pos = {k: i for i, k in enumerate(order)}
        while stack:
            f = stack.pop()
            # normalise modulo complement: representative has value 1 at the
            # all-ones assignment (a regular edge in dd's convention)
            if not (f >> (self.size - 1)) & 1:
                f = self.mask ^ f
            if f in seen:
                continue
            seen.add(f)
            if f == self.mask:
                continue
            sup = self.support(f)
            top = min(sup, key=lambda k: pos[k])
            nodes.add(f)
            stack.append(self.cof(f, top, 0))
            stack.append(self.cof(f, top, 1))
        return len(nodes) + 1
