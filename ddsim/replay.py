"""Replay of a recorded (minimised) trace in a fresh interpreter.

    PYTHONHASHSEED=<from file> python -m ddsim.replay <file>

Exit 1 and a VIOLATION line iff the same failure (same property tags, same
oracle kind) recurs; exit 0 if the trace now passes; exit 2 on harness error.
"""
import json
import os
import sys


def main(argv):
    path = argv[0]
    with open(path) as fd:
        rp = json.load(fd)
    want_hs = str(rp['pythonhashseed'])
    if os.environ.get('PYTHONHASHSEED') != want_hs:
        env = dict(os.environ)
        env['PYTHONHASHSEED'] = want_hs
        env['PYTHONDONTWRITEBYTECODE'] = '1'
        os.execve(sys.executable, [sys.executable, '-X', 'faulthandler', '-m', 'ddsim.replay'] + argv, env)
    from ddsim import profiles, runner, seams  # noqa: F401
    seams.setup_process()
    prop = rp['property']
    seed = __import__('ddsim.prng', fromlist=['mix']).mix(rp['verif_seed'], prop, rp['run_index'])
    res = runner.run(prop, rp['cfg'], seed, trace=rp['trace'])
    if res['harness_error']:
        print('HARNESS-ERROR', res['harness_error'])
        return 2
    f = res['failure']
    if '-v' in argv:
        for i, ins in enumerate(rp['trace']):
            print(f'  {i:3d} {json.dumps(ins, sort_keys=True)}')
    if f is None:
        print(f'replay of {path}: no failure (trace of {len(rp["trace"])} steps passes)')
        return 0
    same = runner.failure_key(f) == runner.failure_key(rp['failure'])
    print(f'VIOLATION property={prop} replay={path}')
    print(f'  op={f["op"]} oracle={f["oracle"]} step={f["step"]} props={f["props"]} cond={f["cond"]}')
    print(f'  {f["detail"]}')
    if not same:
        print(f'  note: recorded failure was {rp["failure"]["oracle"]} {rp["failure"]["props"]}')
    return 1


if __name__ == '__main__':
    sys.exit(main(sys.argv[1:]))
