"""One simulated run: generate-and-execute, or replay of a recorded trace."""
import gc
import hashlib
import json

from ddsim import gen, ops, prng, seams
from ddsim.world import Stop, World, node_of

class RunTimeout(BaseException):
    """Raised by the worker's wall-clock alarm.  `in_dd` tells whether the
    innermost frames were executing code of the dd package."""

    def __init__(self, in_dd=False, where=''):
        super().__init__(where)
        self.in_dd = in_dd
        self.where = where


BG_OPS = {'gc', 'swap', 'reorder', 'pairs', 'configure', 'knobs', 'arm',
          'finalize', 'arm_final', 'declare', 'undeclare'}
REORDER_OPS = {'swap', 'reorder', 'pairs'}
REDO_OPS = {'apply', 'ite', 'quant', 'let', 'cube', 'add_expr', 'fop', 'image', 'find_or_add'}


def step_tags(w, ins, owner):
    """Property ids for invariant failures observed after this step."""
    fired = w.cur_info.get('fired')
    base = ['C09'] if fired else [owner]
    if w.cur_info.get('raised') and w.cur_info.get('expected_raise'):
        base = ['C17'] + (['C12'] if w.cur_info.get('fault') not in (None, 'alloc') else [])
    elif getattr(w, 'prev_raised', False):
        base = base + ['C17']
    auto = w.flavor == 'autoref'
    if w.cur_info.get('final_in_op') and 'C08' not in base:
        base = base + ['C08']
    st = list(base)
    cn = list(base) + (['C08'] if auto else ['C06'])
    dn = list(base) + (['C08'] if auto else [])
    return st, cn, dn


def relevant(w, owner, info):
    """Did this step judge something the run's property speaks about?"""
    p = w.cfg['prop']
    if p == 'C02':
        return True                      # invariant monitor: every step
    if p == 'C06':
        return w.flavor == 'raw'
    if p == 'C08':
        return w.flavor == 'autoref'
    if p == 'C09':
        return bool(info.get('fired'))
    if p == 'C17':
        return bool(info.get('raised')) or getattr(w, 'prev_raised', False)
    return owner == p


def execute(w, ins):
    w.step_no += 1
    w.cur = ins
    w.cur_info = {}
    ent = ops.OPS.get(ins['op'])
    if ent is None:
        w.log.append((w.step_no, ins['op'], 'unknown'))
        return
    fn, owner = ent
    g0 = w.mgrs[ins.get('m', 0) if ins.get('m', 0) < len(w.mgrs) else 0]
    try:
        w.cur_info['dyn_on'] = bool(g0.api.configure().get('reordering'))
    except Exception:
        pass
    dyn_before = []
    for g_ in w.mgrs:
        try:
            dyn_before.append((g_.raw, bool(g_.api.configure().get('reordering'))))
        except Exception:
            dyn_before.append((g_.raw, False))
    limit = None
    if ins.get('alloc') is not None and ins['op'] in ops.ALLOC_OPS and not w.cur_info.get('dyn_on') \
            and w.pending_final is None and w.pending_line is None:
        # F-alloc: the manager may grow by about `alloc` nodes, then it is full
        try:
            gl = g0
            if ins['op'] == 'copy' and len(w.mgrs) > 1:
                gl = w.mgrs[1 - g0.idx]          # nodes are created in the target
            if gl.api.configure().get('reordering'):
                raise ValueError('not under dynamic reordering')
            limit = (gl.raw, gl.raw.max_nodes)
            # exactly `alloc` more nodes fit (holes in the numbering count)
            free, i = [], 2
            while len(free) <= ins['alloc']:
                if i not in gl.raw._succ:
                    free.append(i)
                i += 1
            gl.raw.max_nodes = free[ins['alloc']] + 1
            w.alloc_armed = True
            w.stats['alloc_limit_armed'] += 1
        except Exception:
            limit = None
    try:
        r = fn(w, ins)
    except ops.AllocFault:
        # the call ran out of nodes: a failed call like any other (C17)
        r = 'full'
        w.cur_info['expected_raise'] = True
        w.stats['alloc_fault'] += 1
        w.stats['alloc_fault:' + ins['op']] += 1
        # was a node needed at all?  The same call is made once more with the
        # limit lifted: if it now succeeds without the manager growing, the
        # refusal had no reason (not for one-shot iterator arguments, which
        # the first attempt has consumed)
        lc = w.last_call
        import collections.abc as _cabc
        if limit is not None and lc is not None and not any(
                isinstance(x, _cabc.Iterator) for x in list(lc[1]) + list(lc[2].values())):
            limit[0].max_nodes = limit[1]
            w.alloc_armed = False
            before = set(limit[0]._succ)
            ok2, v2 = ops.call(w, lc[0], *lc[1], **lc[2])
            del v2
            grew = bool(set(limit[0]._succ) - before)
            lc = None
            w.cur_info['raised'] = 'RuntimeError'
            if ok2 and not grew:
                w.fail('refused_without_need', f'{ins["op"]} raised "full" under a node limit, but the same call needs no new node', [owner])
            w.stats['alloc_fault_needed_a_node'] += 1
    finally:
        if limit is not None:
            limit[0].max_nodes = limit[1]
            w.alloc_armed = False
    w.last_call = None
    w.touch()   # temporaries of the executor are gone now: observe afresh
    st, cn, dn = step_tags(w, ins, owner)
    w.check_invariants(st, cn, dn)
    w.check_quiet(cn)
    for g_ in w.mgrs:
        # between calls nobody is inside the retry wrapper: a flag left set
        # makes the next request for reordering escape to the caller
        if getattr(g_.raw, '_reordering_context', False) is True:
            w.fail('context_stuck', f'M{g_.idx} still claims to be inside a reordering context after {ins["op"]} returned',
                   ['C09'] + (['C17'] if w.cur_info.get('raised') else []))
    if ins['op'] not in ('configure', 'copy_vars', 'fork', 'manager_roundtrip') \
            and not (ins['op'] == 'load' and ins.get('target') == 2):
        # whichever manager had reordering enabled still has (a replaced
        # manager is a new object and is not compared)
        for g_, (obj, was) in zip(w.mgrs, dyn_before):
            if not was or g_.raw is not obj:
                continue
            try:
                still = bool(g_.api.configure().get('reordering'))
            except Exception:
                still = True
            if not still:
                w.fail('reordering_disabled', f'dynamic reordering of M{g_.idx} was enabled before {ins["op"]} and is disabled after it',
                       ['C09'] + (['C17'] if w.cur_info.get('raised') else []))
    w.prev_raised = bool(w.cur_info.get('raised') and w.cur_info.get('expected_raise'))
    if w.prev_raised:
        w.stats['raised_steps'] += 1
    w.stats['op:' + ins['op'] + (':skip' if r == 'skip' else '')] += 1
    if w.real_dir is not None:
        w.stats['steps_on_real_disk'] += 1
    if r != 'skip' and ins['op'] in REDO_OPS:
        w.history.append(ins)
        if len(w.history) > 40:
            del w.history[0]
    # event log (no clocks, no PRNG draws)
    sn = w.snapshot(0)
    w.log.append((w.step_no, ins['op'], 'skip' if r == 'skip' else 'ok',
                  sn.n, tuple(sn.order or ()),
                  tuple(node_of(s.ref) for s in w.slots),
                  tuple(s.tt for s in w.slots),
                  w.cur_info.get('fired', 0), w.cur_info.get('calls', 0)))
    info = w.cur_info
    if info.get('fired') or info.get('final_in_op') or info.get('fault') or info.get('raised'):
        w.bg_seen += 1
    if ins['op'] in BG_OPS and r != 'skip':
        # reordering / declaration steps are themselves what C07 / C14 judge
        if owner == w.cfg['prop'] and w.slots and w.bg_seen:
            w.judged_after_bg += 1
        w.bg_seen += 1
    elif r != 'skip' and w.bg_seen and relevant(w, owner, info):
        w.judged_after_bg += 1
    w.sig.append((ins['op'], ins.get('sym') or ins.get('how') or ins.get('kind') or '',
                  min(info.get('calls', 0), 12) // 3, bool(info.get('fired')),
                  bool(info.get('final_in_op')), r == 'skip'))


def epilogue(w):
    """End of run: drop everything, finalize, collect, shutdown check."""
    w.cur = dict(op='epilogue')
    w.cur_info = {}
    auto = w.flavor == 'autoref'
    props = ['C08'] if auto else ['C06']
    # release all handles
    w.copy_caches.clear()
    while w.slots:
        s = w.slots.pop()
        g = w.mgrs[s.m]
        if auto:
            s.ref = None
        else:
            g.raw.decref(s.ref)
    w.finalize()
    w.check_quiet(props)
    for g in w.mgrs:
        if auto:
            c = w.census(g)
            if c:
                w.fail('live_function_left', f'M{g.idx}: Function objects still alive after every handle was dropped: {dict(c)}', props)
        ok, v = ops.call(w, g.api.collect_garbage)
        if not ok:
            w.fail('exception:' + v[0], f'final collect_garbage raised: {v[1]}', props)
        sn = w.snapshot(g.idx)
        if sorted(sn.succ) != [1]:
            w.fail('I-exact', f'M{g.idx}: after all handles are gone a collection leaves {len(sn.succ)} nodes', props)
    w.check_invariants(props, props, props, where='at end of run')
    for g in w.mgrs:
        ok, v = ops.call(w, g.raw.__del__)
        if not ok:
            w.fail('shutdown_check', f'M{g.idx}: manager shutdown check failed: {v[0]}', props)
    w.check_quiet(props)


def run(prop, cfg, seed, trace=None, max_steps=None):
    """Execute one run.  If `trace` is given it is replayed, else generated.

    Returns a result dict (JSON-serialisable).
    """
    seams.reset_parser_singleton()
    seams.QUIET.drain()
    B = seams.DD.bdd
    saved_knobs = (B.REORDER_STARTS, B.REORDER_FACTOR, B.GROWTH_FACTOR)
    w = World(cfg)
    w.bg_seen = 0
    w.history = []
    w.judged_after_bg = 0
    w.sig = []
    executed = []
    harness_error = None
    try:
        try:
            # the managers as constructed (possibly from explicit levels)
            w.cur = dict(op='construct')
            w.check_invariants(['C14'], ['C14'], ['C14'], where='after construction')
            if trace is not None:
                for ins in trace:
                    executed.append(ins)
                    execute(w, ins)
            else:
                r = prng.stream(cfg.get('gen_seed', seed), 'ops')
                for ins in gen.prologue(w, cfg, r):
                    executed.append(ins)
                    execute(w, ins)
                if cfg.get('dense'):
                    from ddsim import ops_dense
                    prog = ops_dense.program(cfg, prng.stream(seed, 'dense'))
                    for ins in ops_dense.interleave(w, cfg, r, prog):
                        executed.append(ins)
                        execute(w, ins)
                else:
                    n = cfg['steps'] if max_steps is None else max_steps
                    for _ in range(n):
                        ins = gen.next_instruction(w, r, cfg)
                        executed.append(ins)
                        execute(w, ins)
                    for ins in gen.sweep_tail(w, r, cfg):
                        executed.append(ins)
                        execute(w, ins)
            epilogue(w)
        except Stop:
            pass
        except RunTimeout as e:
            if e.in_dd and w.cur is not None and w.failure is None:
                # the API never returned: a violation of the property that
                # owns the call (a wall-limit kill never yields exit 0)
                ent = ops.OPS.get(w.cur.get('op'))
                owner = ent[1] if ent else cfg['prop']
                tags = ['C09'] if seams.ALLOC.fired or w.cur_info.get('dyn_on') else [owner]
                w.failure = dict(oracle='no_return', detail=f'call did not return within the wall limit; innermost dd frame: {e.where}',
                                 props=tags, op=w.cur.get('op'), step=w.step_no, cond=['flavor:' + w.flavor, 'timeout'])
            else:
                harness_error = f'run exceeded the wall limit outside dd code ({e.where})'
        except seams.HarnessError as e:
            harness_error = str(e)
        except RecursionError as e:
            harness_error = 'RecursionError in harness: ' + str(e)[:200]
    finally:
        B.REORDER_STARTS, B.REORDER_FACTOR, B.GROWTH_FACTOR = saved_knobs
        if w.flavor == 'raw':
            for s_ in w.slots:
                try:
                    w.mgrs[s_.m].raw.decref(s_.ref)
                except Exception:
                    pass
        w.slots = []
        w.copy_caches = {}
        w.remembered = {}
        w.close()
        w.mgrs = []
        # the parser singleton of dd keeps the manager of a parse that raised
        seams.reset_parser_singleton()
        gc.collect()          # nothing of this run survives into the next
        seams.QUIET.drain()
    h = hashlib.sha256()
    for e in w.log:
        h.update(repr(e).encode())
    hl = hashlib.sha256()
    for e in w.log:
        hl.update(repr((e[0], e[1], e[2], e[6])).encode())
    sig = hashlib.sha256(repr((w.sig, sorted(w.orders_seen))).encode()).hexdigest()[:16]
    res = dict(
        prop=prop, seed=seed, failure=w.failure, harness_error=harness_error,
        steps=len(executed), stats=dict(w.stats),
        fs=dict(w.fs.stats),
        digest=h.hexdigest()[:16], ldigest=hl.hexdigest()[:16],
        sig=sig, nontrivial=w.judged_after_bg > 0,
        orders=len(w.orders_seen), trace=executed, cfg=cfg)
    return res


def failure_key(f):
    """What must recur for a shrunk trace to count as the same failure."""
    if f is None:
        return None
    ok = f['oracle'].split(':')[0]
    return (ok, tuple(f['props']))


def shrink(prop, cfg, seed, trace, failure, budget=400):
    """ddmin over the trace, keeping property and oracle kind fixed."""
    want = failure_key(failure)
    best = list(trace)
    best_f = failure
    tries = 0

    def test(cand):
        nonlocal tries
        tries += 1
        r = run(prop, cfg, seed, trace=cand)
        if r['harness_error']:
            return None
        f = r['failure']
        if f is not None and failure_key(f) == want:
            return f
        return None

    # the failing step is the last executed one: cut the tail
    n = 2
    while len(best) >= 2 and tries < budget:
        chunk = max(1, len(best) // n)
        reduced = False
        i = 0
        while i < len(best) and tries < budget:
            cand = best[:i] + best[i + chunk:]
            if cand:
                f = test(cand)
                if f is not None:
                    best, best_f = cand, f
                    reduced = True
                    continue
            i += chunk
        if not reduced:
            if chunk == 1:
                break
            n = min(len(best), n * 2)
    # simplify arguments: lower in-op positions and drop 'keep' flags
    for idx in range(len(best)):
        if tries >= budget:
            break
        ins = best[idx]
        for key in ('j', 'k'):
            if ins.get('op') in ('arm', 'arm_final') and isinstance(ins.get(key), int) and ins[key] > 0:
                for nv in (0, ins[key] // 2):
                    c = dict(ins)
                    c[key] = nv
                    cand = best[:idx] + [c] + best[idx + 1:]
                    f = test(cand)
                    if f is not None:
                        best, best_f = cand, f
                        break
    return best, best_f, tries


def dumps(obj):
    return json.dumps(obj, sort_keys=True, separators=(',', ':'))
