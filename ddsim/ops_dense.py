"""Dense workloads (thorough tier): the operand enumeration is systematic, the
interleaving with background events is what the scheduler samples.  This is
input coverage riding on the simulator, and is reported as such.

`mk_tt` builds the function with a given truth table over the first `n`
names by one of several routes (C02: equal functions arriving by different
routes must get equal references).
"""
from ddsim import gen, ops, ops_expr
from ddsim.ops import call, declared, take_result


def _tt_of(w, table, n, ks=None):
    """Expand a table over n names (the first n unless `ks` lists others) to
    the run's universe."""
    T = w.tt
    ks = list(range(n)) if ks is None else ks
    res = 0
    for a in range(1 << n):
        if (table >> a) & 1:
            res |= T.cube({ks[j]: bool((a >> j) & 1) for j in range(n)})
    return res


def op_mk_tt(w, ins):
    m = ins.get('m', 0)
    g = w.mgrs[m]
    n = ins['n']
    dec = declared(w, m)
    if ins.get('any'):
        # a function of (up to) n of the declared names, whichever they are
        pool = sorted(dec)
        if not pool:
            return 'skip'
        n = min(n, len(pool))
        off = ins.get('off', 0) % len(pool)
        ks = sorted((pool + pool)[off:off + n])
        if len(set(ks)) != n:
            return 'skip'
    else:
        if any(k not in dec for k in range(n)):
            return 'skip'
        ks = list(range(n))
    T = w.tt
    table = ins['tt'] & ((1 << (1 << n)) - 1)
    want = _tt_of(w, table, n, ks)
    w.stats['mk_tt'] += 1
    route = ins.get('route', 0)
    api = g.api
    sn = w.snapshot(m)
    if ins.get('any') and g.flavor == 'raw' and api.configure()['reordering']:
        # with integer references, intermediate results held across calls are
        # unreferenced: with reordering on that is the caller's risk (C09
        # covers dd.bdd for referenced operands), so build in one call
        route = 3

    if route == 0 and g.flavor == 'raw':
        # node by node with find_or_add, following the current order
        order = [w.name_idx[nm] for nm in sn.order if w.name_idx.get(nm) in ks]
        lvl = {k: sn.order.index(w.names[k]) for k in order}
        pos = {k: j for j, k in enumerate(ks)}

        def build(asg, i):
            if i == len(order):
                idx = sum(1 << pos[k] for k, v in asg.items() if v)
                return 1 if (table >> idx) & 1 else -1
            k = order[i]
            lo = build({**asg, k: 0}, i + 1)
            hi = build({**asg, k: 1}, i + 1)
            return api.find_or_add(lvl[k], lo, hi)
        ok, v = call(w, build, {}, 0)
    elif route == 1 or (route == 0 and g.flavor != 'raw'):
        # Shannon expansion with ite on variables, top name first
        def build(asg, j):
            if j == n:
                idx = sum(1 << i for i, v in asg.items() if v)
                return api.true if (table >> idx) & 1 else api.false
            lo = build({**asg, j: 0}, j + 1)
            hi = build({**asg, j: 1}, j + 1)
            return api.ite(api.var(w.names[ks[j]]), hi, lo)
        ok, v = call(w, build, {}, 0)
    elif route == 2:
        # disjunction of minterm cubes via apply
        def build():
            r = api.false
            for a in range(1 << n):
                if (table >> a) & 1:
                    c = api.cube({w.names[ks[j]]: bool((a >> j) & 1) for j in range(n)})
                    r = api.apply('or', r, c)
            return r
        ok, v = call(w, build)
    else:
        # parse a DNF
        terms = []
        for a in range(1 << n):
            if (table >> a) & 1:
                lits = [(w.names[ks[j]] if (a >> j) & 1 else '~ ' + w.names[ks[j]]) for j in range(n)]
                terms.append('(' + ' /\\ '.join(lits) + ')' if lits else 'TRUE')
        text = ' \\/ '.join(terms) if terms else 'FALSE'
        ok, v = call(w, api.add_expr, text)
    take_result(w, m, ok, v, want, 'C02', ins.get('keep', True), f'mk_tt route {route}')


ops.register('mk_tt', op_mk_tt, 'C02')


def op_mk_struct(w, ins):
    """A handle on a structured, order-sensitive function of the declared
    names (random truth tables are nearly order-insensitive, so sifting never
    meets a diagram that doubles while one variable travels): sums of paired
    products, comparators, counters modulo 3, and a multiplexer of two
    counters over interleaved groups."""
    import random
    m = ins.get('m', 0)
    g = w.mgrs[m]
    api = g.api
    if g.flavor == 'raw' and api.configure()['reordering']:
        return 'skip'       # intermediates are held across calls as integers
    dec = list(declared(w, m))
    if len(dec) < 4:
        return 'skip'
    rr = random.Random(ins['seed'])
    T = w.tt
    ks = dec[:]
    rr.shuffle(ks)
    kind = ins['kind']

    def build():
        V = {k: (api.var(w.names[k]), T.var[k]) for k in ks}

        def AND(x, y):
            return (api.apply('and', x[0], y[0]), x[1] & y[1])

        def OR(x, y):
            return (api.apply('or', x[0], y[0]), x[1] | y[1])

        def XOR(x, y):
            return (api.apply('xor', x[0], y[0]), x[1] ^ y[1])

        def NOT(x):
            return (api.apply('not', x[0]), T.neg(x[1]))

        def ITE(c, x, y):
            return (api.ite(c[0], x[0], y[0]), T.ite(c[1], x[1], y[1]))
        TRUE = (api.true, T.mask)
        FALSE = (api.false, 0)

        def counter(group, r):
            c = [TRUE, FALSE, FALSE]
            for k in group:
                c = [ITE(V[k], c[(j - 1) % 3], c[j]) for j in range(3)]
            return c[r]
        if kind == 'pairs':
            acc = FALSE
            for i in range(0, len(ks) - 1, 2):
                t = AND(V[ks[i]], V[ks[i + 1]]) if rr.random() < 0.7 else NOT(XOR(V[ks[i]], V[ks[i + 1]]))
                acc = OR(acc, t) if rr.random() < 0.7 else XOR(acc, t)
            return acc
        if kind == 'cmp':
            # x < y, bits paired (x_i, y_i), most significant pair first
            lt, eq = FALSE, TRUE
            for i in range(0, len(ks) - 1, 2):
                x, y = V[ks[i]], V[ks[i + 1]]
                lt = OR(lt, AND(eq, AND(NOT(x), y)))
                eq = AND(eq, NOT(XOR(x, y)))
            return lt if rr.random() < 0.5 else eq
        if kind == 'count':
            return counter(ks[:rr.randint(3, len(ks))], rr.randrange(3))
        # multiplexer of two counters over the groups at even and odd levels
        order = [k for k in (w.name_idx[nm] for nm in w.snapshot(m).order) if k in V]
        sel, rest = order[0], order[1:]
        return ITE(V[sel], counter(rest[0::2], rr.randrange(3)), counter(rest[1::2], rr.randrange(3)))
    ok, v = call(w, build)
    if not ok:
        w.fail('exception:' + v[0], f'building a structured function ({kind}) raised {v[1]}', ops.owner_tags(w, 'C01'))
    ref, want = v
    del v
    w.stats['mk_struct'] += 1
    take_result(w, m, True, ref, want, 'C01', True, f'mk_struct {kind}')


ops.register('mk_struct', op_mk_struct, 'C01')


def gen_mk_struct(w, r, cfg):
    return dict(op='mk_struct', kind=r.choice(['pairs', 'cmp', 'count', 'mux', 'mux']), seed=r.randrange(1 << 30))


gen.register('mk_struct', gen_mk_struct)


def op_inflate(w, ins):
    """A manager that has been used for a while: node numbers well above 256
    are in use (CPython shares small integers only, tables have been resized,
    the numbering has holes after the next collection).  Random functions are
    built through the public interface and let go at once; what remains is
    garbage until something collects it."""
    import random
    m = ins.get('m', 0)
    g = w.mgrs[m]
    dec = sorted(declared(w, m))
    if len(dec) < 4:
        return 'skip'
    rr = random.Random(ins['seed'])
    target = ins.get('target', 300)
    tries = 0
    while len(g.raw) < target and tries < 200:
        tries += 1
        ks = rr.sample(dec, min(len(dec), rr.choice([4, 5, 5, 6])))
        terms = []
        for _ in range(rr.randint(3, 8)):
            lits = [(w.names[k] if rr.random() < 0.5 else '~ ' + w.names[k]) for k in ks if rr.random() < 0.8]
            terms.append('(' + ' /\\ '.join(lits) + ')' if lits else 'TRUE')
        ok, v = call(w, g.api.add_expr, ' ^ '.join(terms))
        if not ok:
            w.fail('exception:' + v[0], f'add_expr of a valid formula raised {v[1]}', ops.owner_tags(w, 'C05'))
        del v
    w.touch()
    w.stats['inflate'] += 1
    w.stats['inflate_reached'] += int(len(g.raw) >= target)


ops.register('inflate', op_inflate, 'C02')


def gen_mk_tt(w, r, cfg):
    """A handle on a random function of 2-5 declared names (random
    workloads: operands that are not just variables)."""
    n = r.choice([2, 3, 3, 4, 4, 5])
    return dict(op='mk_tt', any=1, n=n, off=r.randrange(16), tt=r.getrandbits(1 << n), route=r.randrange(4),
                keep=True)


gen.register('mk_tt', gen_mk_tt)

BG_WEIGHTS = [('gc', 4), ('swap', 5), ('reorder', 2), ('pairs', 1), ('finalize', 2), ('arm_final', 1)]
_BIN = ['and', 'or', 'xor', 'implies', 'equiv', 'diff']


def program(cfg, r):
    """The systematic part of a dense run, as a list of instructions."""
    d = cfg['dense']
    kind = d['kind']
    out = []
    n = d['n']
    size = 1 << (1 << n)
    blk = d['block']
    per = d['per']
    items = [(blk * per + i) % d['space'] for i in range(per)]

    def mk(tt, keep=True):
        return dict(op='mk_tt', n=n, tt=tt, route=r.randrange(4), keep=keep)
    if kind == 'C01':
        for it in items:
            a, b = it % size, (it // size) % size
            out.append(mk(a))
            out.append(mk(b))
            for c in _BIN:
                out.append(dict(op='apply', sym=r.choice(ops.BINARY[c]), a=-2, b=-1, keep=False))
            out.append(dict(op='apply', sym=r.choice(ops.UNARY), a=-1, keep=False))
            c = r.randrange(size)
            out.append(mk(c))
            out.append(dict(op='ite', a=-3, b=-2, c=-1, keep=False))
            out.append(dict(op='apply', sym='ite', a=-1, b=-3, c=-2, keep=False))
            for _ in range(3):
                out.append(dict(op='drop', a=-1, mode='now'))
    elif kind == 'C02':
        for it in items:
            tt = it % size
            r1 = r.randrange(4)
            out.append(dict(op='mk_tt', n=n, tt=tt, route=r1))
            out.append(dict(op='mk_tt', n=n, tt=tt, route=(r1 + 1 + r.randrange(3)) % 4))
            out.append(dict(op='eqcheck', a=-1, b=-2))
            out.append(dict(op='mk_tt', n=n, tt=tt ^ (size - 1), route=r.randrange(4)))
            out.append(dict(op='eqcheck', a=-1, b=-2))
            out.append(dict(op='sizes', a=-1, more=[-2]))
            for _ in range(3):
                out.append(dict(op='drop', a=-1, mode='now'))
    elif kind == 'C03':
        for it in items:
            out.append(mk(it % size))
            for vs in range(1 << n):
                for fa in (0, 1):
                    out.append(dict(op='quant', how=r.choice(['quantify', 'named', 'fmeth']), a=-1, b=-1,
                                    vars=vs, forall=fa, cont=r.randrange(7), alias=0, kwarg=r.randrange(2), keep=False))
            out.append(dict(op='drop', a=-1, mode='now'))
    elif kind == 'C04':
        for it in items:
            out.append(mk(it % size))
            for asg in range(3 ** n):
                pairs = []
                x = asg
                for k in range(n):
                    t = x % 3
                    x //= 3
                    if t:
                        pairs.append([k, t - 1])
                if pairs:
                    r.shuffle(pairs)
                    out.append(dict(op='let', kind='bool', how=r.choice(['let', 'direct', 'fmeth']), a=-1, pairs=pairs, keep=False))
            for _ in range(6):
                out.append(dict(op='let', kind='name', how=r.choice(['let', 'direct']), a=-1,
                                pairs=[[r.randrange(n), r.randrange(n)] for _ in range(r.randint(1, n))], keep=False))
            out.append(mk(r.randrange(size)))
            out.append(mk(r.randrange(size)))
            for _ in range(6):
                out.append(dict(op='let', kind='fn', how=r.choice(['let', 'direct']), a=-3,
                                pairs=[[r.randrange(n), r.choice([-1, -2, -3])] for _ in range(r.randint(1, n))], keep=False))
            for _ in range(3):
                out.append(dict(op='drop', a=-1, mode='now'))
    elif kind == 'C10':
        for it in items:
            out.append(mk(it % size))
            out.append(dict(op='support', a=-1, how=r.randrange(3)))
            for extra in (None, 0, 1, 2, 3, -1):
                out.append(dict(op='count', a=-1, extra=extra, how=r.randrange(2)))
            out.append(dict(op='pick', a=-1, care=None, iter=True, how=0))
            for care in range(1 << n):
                out.append(dict(op='pick', a=-1, care=care, superset=r.randrange(2), iter=r.random() < 0.8, how=r.randrange(2)))
            out.append(dict(op='drop', a=-1, mode='now'))
    elif kind == 'C18':
        for it in items:
            out.append(mk(it % size))
            out.append(mk(r.randrange(size)))
            out.append(dict(op='traverse', a=-1, how=r.randrange(2), keepmask=0))
            out.append(dict(op='traverse', a=-2, how=r.randrange(2), keepmask=0))
            out.append(dict(op='sizes', a=-2, more=[-1]))
            out.append(dict(op='to_nx', a=-2, more=[-1]))
            out.append(dict(op='dump_dot', a=-2, more=[-1], ext=r.choice(['dot', 'pdf']), filetype=r.randrange(2)))
            for _ in range(2):
                out.append(dict(op='drop', a=-1, mode='now'))
    elif kind == 'C06':
        # every event sequence of length <= 5 over a small alphabet, for two
        # fixed functions (most bugs of this kind need <= 3 operations)
        alpha = ['make_f', 'make_g', 'hold_f', 'hold_g', 'release', 'collect', 'rooted', 'swap']
        f_tt, g_tt = d['f'], d['g']
        for it in items:
            x = it
            length = 1 + x % 5
            x //= 5
            seq = []
            for _ in range(length):
                seq.append(alpha[x % len(alpha)])
                x //= len(alpha)
            for ev in seq:
                if ev == 'make_f':
                    out.append(dict(op='mk_tt', n=n, tt=f_tt, route=d['route'], keep=False))
                elif ev == 'make_g':
                    out.append(dict(op='mk_tt', n=n, tt=g_tt, route=d['route'], keep=False))
                elif ev == 'hold_f':
                    out.append(dict(op='mk_tt', n=n, tt=f_tt, route=d['route'], keep=True))
                elif ev == 'hold_g':
                    out.append(dict(op='mk_tt', n=n, tt=g_tt, route=d['route'], keep=True))
                elif ev == 'release':
                    out.append(dict(op='drop', a=-1, mode='now'))
                elif ev == 'collect':
                    out.append(dict(op='gc'))
                elif ev == 'rooted':
                    out.append(dict(op='gc', roots=[0, 1, 2, 3]))
                else:
                    out.append(dict(op='swap', x=it % 2, by_name=0, flip=0))
            # back to a clean manager before the next sequence
            for _ in range(5):
                out.append(dict(op='drop', a=-1, mode='now'))
            out.append(dict(op='gc'))
    elif kind == 'C07':
        # all starting orders of 3 variables x held set x every adjacent swap,
        # by name and by level, then sift, every target order, pairs
        import itertools
        perms = list(itertools.permutations(range(n)))
        for it in items:
            start = perms[it % len(perms)]
            held = [(it // 6 + 37 * j) % size for j in range(1 + (it // 6) % 3)]
            keys = [0] * n
            for posn, k in enumerate(start):
                keys[k] = posn
            for tt in held:
                out.append(mk(tt))
            out.append(dict(op='reorder', perm=keys))
            for x in range(n - 1):
                for by_name in (0, 1):
                    out.append(dict(op='swap', x=x, by_name=by_name, flip=(x + by_name) % 2))
            out.append(dict(op='reorder', perm=None))
            for target in perms:
                k2 = [0] * n
                for posn, k in enumerate(target):
                    k2[k] = posn
                out.append(dict(op='reorder', perm=k2))
            out.append(dict(op='pairs', perm=[r.randrange(1000) for _ in range(n)], npairs=1))
            for _ in held:
                out.append(dict(op='drop', a=-1, mode='now'))
    elif kind == 'C05':
        # every ordered pair of binary precedence levels, flat, every spelling
        conns = ops_expr.CONNS
        for it in items:
            c1 = conns[it % 6]
            c2 = conns[(it // 6) % 6]
            shape = (it // 36) % 4
            leaves = [['v', 0], ['v', 1 % n], ['v', 2 % n], ['c', 1], ['c', 0], ['n', ['v', 0]]]
            a, b, c = leaves[(it // 144) % 6], leaves[(it // 864) % 6], leaves[(it // 5184) % 6]
            if ops_expr.PREC[c1] >= ops_expr.PREC[c2]:
                ast = ['b', c2, ['b', c1, a, b], c]
            else:
                ast = ['b', c1, a, ['b', c2, b, c]]
            if shape == 1:
                ast = ['n', ast]
            elif shape == 2:
                ast = ['q', 'E', [0], ast]
            elif shape == 3:
                ast = ['i', ast, ['v', 0], ['c', 0]]
            for style in range(3):
                out.append(dict(op='add_expr', ast=ast, style=r.randrange(1 << 30), m=0, keep=False))
    elif kind == 'C13':
        # one primed/unprimed pair over names 0 (x) and 1 (x'), plus name 2 (y)
        for it in items:
            t, s = it % 256, (it // 256) % 16
            out.append(dict(op='mk_tt', n=3, tt=t, route=r.randrange(4)))           # trans over x, x', y
            # set over x and y only (names 0 and 2): expand a 2-variable table
            st = 0
            for a in range(8):
                if (s >> ((a & 1) | ((a >> 2) << 1))) & 1:
                    st |= 1 << a
            out.append(dict(op='mk_tt', n=3, tt=st, route=r.randrange(4)))
            for pre in (0, 1):
                for fa in (0, 1):
                    for qm in (r.randrange(8), r.randrange(8)):
                        out.append(dict(op='image', pre=pre, a=-2, b=-1, pairs=[[d['pos_x'], d['pos_xp']]] if pre else [[d['pos_xp'], d['pos_x']]],
                                        qmask=qm, forall=fa, levels=r.randrange(2), qlist=r.randrange(2), keep=False, by_name=True))
            for _ in range(2):
                out.append(dict(op='drop', a=-1, mode='now'))
    return out


def interleave(w, cfg, r, prog):
    """Yield the program with seeded background events in between."""
    rate = cfg['dense'].get('bg_rate', 0.15)
    allowed = cfg['dense'].get('bg')
    table = [(k, v) for k, v in BG_WEIGHTS if k in gen.GEN and (w.flavor == 'autoref' or k not in ('finalize', 'arm_final'))
             and (allowed is None or k in allowed)]
    for ins in prog:
        if table and r.random() < rate:
            k = gen.prng.weighted(r, table)
            yield gen.GEN[k](w, r, cfg)
        yield ins
