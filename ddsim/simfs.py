"""SimFS: an in-memory file system with injectable faults (seam S4/S5).

Bound to the module-global names `open`, `os`, `shutil`, `_open_shelf`,
`_sbp` of the `dd` modules that do I/O.  Every byte written lands on the
simulated disk at once, so a write that fails after k bytes leaves a torn
prefix behind, as a real disk does.
"""
import errno
import os as _real_os

from ddsim import seams


class Fault:
    """One armed fault; consumed by the first matching event."""

    def __init__(self, kind, pos=0, err=errno.EIO):
        self.kind = kind      # 'open' | 'write' | 'read' | 'shelf' | 'dot'
        self.pos = pos        # bytes / items before the fault
        self.err = err
        self.fired = False


class SimFile:
    def __init__(self, fs, path, mode):
        self.fs = fs
        self.path = path
        self.mode = mode
        self.binary = 'b' in mode
        self.closed = False
        self.pos = 0
        self.nread = 0
        self.nwritten = 0
        if 'w' in mode:
            fs.files[path] = b''

    # context manager
    def __enter__(self):
        return self

    def __exit__(self, *a):
        self.close()
        return False

    def close(self):
        self.closed = True

    def flush(self):
        pass

    # writing
    def write(self, data):
        if 'w' not in self.mode and 'a' not in self.mode:
            raise OSError(errno.EBADF, 'not writable')
        raw = data if self.binary else data.encode('utf8')
        raw = bytes(raw)
        f = self.fs.fault
        if f is not None and f.kind == 'write' and not f.fired:
            room = f.pos - self.nwritten
            if len(raw) > room:
                room = max(room, 0)
                self.fs.files[self.path] += raw[:room]
                self.nwritten += room
                f.fired = True
                self.fs.stats['write_fault'] += 1
                raise OSError(f.err, _real_os.strerror(f.err), self.path)
        self.fs.files[self.path] += raw
        self.nwritten += len(raw)
        self.fs.stats['bytes_written'] += len(raw)
        return len(data)

    # reading
    def _take(self, n):
        data = self.fs.files[self.path]
        if n is None or n < 0:
            n = len(data) - self.pos
        chunk = data[self.pos:self.pos + n]
        f = self.fs.fault
        if f is not None and f.kind == 'read' and not f.fired:
            room = f.pos - self.nread
            if len(chunk) > room or (len(chunk) == 0 and room <= 0):
                f.fired = True
                self.fs.stats['read_fault'] += 1
                raise OSError(f.err, _real_os.strerror(f.err), self.path)
        self.pos += len(chunk)
        self.nread += len(chunk)
        return chunk

    def read(self, n=-1):
        chunk = self._take(n)
        return chunk if self.binary else chunk.decode('utf8')

    def readinto(self, b):
        chunk = self._take(len(b))
        b[:len(chunk)] = chunk
        return len(chunk)

    def readline(self, limit=-1):
        data = self.fs.files[self.path]
        j = data.find(b'\n', self.pos)
        n = (len(data) - self.pos) if j < 0 else (j + 1 - self.pos)
        if limit is not None and limit >= 0:
            n = min(n, limit)
        chunk = self._take(n)
        return chunk if self.binary else chunk.decode('utf8')

    def __iter__(self):
        return self

    def __next__(self):
        line = self.readline()
        if not line:
            raise StopIteration
        return line


class SimShelf(dict):
    """Stands in for `shelve.open(...)` (protocol `dd._copy._Shelf`).

    Like a real shelf it is persistent: opening the same path again (flag
    'c', the default of `shelve.open`) finds what an earlier writer left,
    until the directory that holds it is removed.
    """

    def __init__(self, fs, name=None):
        super().__init__()
        self.fs = fs
        self.nset = 0
        self.name = name
        if name is not None:
            d = os_dirname(name)
            if d and d not in fs.dirs:
                raise FileNotFoundError(errno.ENOENT, 'No such file or directory', name)
            self.update(fs.shelves.get(name, {}))

    def _persist(self):
        if self.name is not None:
            self.fs.shelves[self.name] = dict(self)

    def __enter__(self):
        return self

    def __exit__(self, *a):
        return False

    def __setitem__(self, k, v):
        f = self.fs.fault
        if f is not None and f.kind == 'shelf' and not f.fired:
            if self.nset >= f.pos:
                f.fired = True
                self.fs.stats['shelf_fault'] += 1
                raise OSError(f.err, _real_os.strerror(f.err))
        self.nset += 1
        super().__setitem__(k, v)
        self._persist()


def os_dirname(p):
    return _real_os.path.dirname(p)


class _OsFacade:
    def __init__(self, fs):
        self.fs = fs
        self.path = _real_os.path
        self.sysconf_names = {}

    def makedirs(self, d, mode=0o777, exist_ok=False):
        if d in self.fs.dirs:
            if exist_ok:
                return
            raise FileExistsError(errno.EEXIST, 'File exists', d)
        self.fs.dirs.add(d)


class _ShutilFacade:
    def __init__(self, fs):
        self.fs = fs

    def rmtree(self, d, *a, **kw):
        if d not in self.fs.dirs:
            raise FileNotFoundError(errno.ENOENT, 'No such directory', d)
        self.fs.dirs.discard(d)
        for name in [n for n in self.fs.shelves if n.startswith(d + '/')]:
            del self.fs.shelves[name]


class _Completed:
    returncode = 0
    stdout = ''
    stderr = ''


class _SbpFacade:
    """Stands in for `subprocess` in `dd._utils` (the `dot` program)."""

    def __init__(self, fs):
        self.fs = fs
        import subprocess
        self.CalledProcessError = subprocess.CalledProcessError

    def run(self, cmd, **kw):
        self.fs.stats['dot_runs'] += 1
        f = self.fs.fault
        if f is not None and f.kind == 'dot' and not f.fired:
            f.fired = True
            self.fs.stats['dot_fault'] += 1
            if f.pos == 0:
                raise FileNotFoundError(errno.ENOENT, 'dot')
            raise self.CalledProcessError(1, cmd)
        self.fs.dot_inputs.append((list(cmd), kw.get('input')))
        # `dot -Tpdf -o file`: create the output file
        out = None
        for i, a in enumerate(cmd):
            if a == '-o' and i + 1 < len(cmd):
                out = cmd[i + 1]
        if out is not None:
            self.fs.files[out] = b'%SIM-DOT-OUTPUT'
        return _Completed()


class SimFS:
    def __init__(self):
        self.files = {}
        self.dirs = set()
        self.shelves = {}
        self.fault = None
        self.dot_inputs = []
        self.stats = dict(
            opens=0, open_fault=0, write_fault=0, read_fault=0,
            shelf_fault=0, dot_runs=0, dot_fault=0, bytes_written=0)

    def open(self, path, mode='r', *a, **kw):
        self.stats['opens'] += 1
        f = self.fault
        if f is not None and f.kind == 'open' and not f.fired:
            f.fired = True
            self.stats['open_fault'] += 1
            raise OSError(f.err, _real_os.strerror(f.err), path)
        if 'r' in mode and path not in self.files:
            raise FileNotFoundError(errno.ENOENT, 'No such file', path)
        return SimFile(self, path, mode)

    def arm(self, fault):
        self.fault = fault

    def disarm(self):
        f = self.fault
        self.fault = None
        return f

    # binding
    def bind(self):
        D = seams.DD
        self._saved = []
        fs = self

        def put(mod, name, val):
            had = name in mod.__dict__
            self._saved.append((mod, name, had, mod.__dict__.get(name)))
            setattr(mod, name, val)
        put(D.bdd, 'open', self.open)
        put(D.copy, 'open', self.open)
        put(D.utils, 'open', self.open)
        put(D.dddmp, 'open', self.open)
        put(D.copy, 'os', _OsFacade(self))
        put(D.copy, 'shutil', _ShutilFacade(self))
        put(D.copy, '_open_shelf', lambda name: SimShelf(fs, name))
        put(D.utils, '_sbp', _SbpFacade(self))

    def unbind(self):
        for mod, name, had, val in reversed(self._saved):
            if had:
                setattr(mod, name, val)
            else:
                try:
                    delattr(mod, name)
                except AttributeError:
                    pass
        self._saved = []
