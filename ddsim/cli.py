"""Command line: ./check <PROP> | replay <file> | selftest."""
import argparse
import os
import sys


def main(argv):
    if not argv:
        print(__doc__)
        return 2
    if argv[0] == 'replay':
        from ddsim import replay
        return replay.main(argv[1:])
    if argv[0] == 'selftest':
        from ddsim import selftest
        return selftest.main(argv[1:])
    ap = argparse.ArgumentParser()
    ap.add_argument('prop')
    ap.add_argument('--tier', default=os.environ.get('VERIF_TIER', 'quick'))
    ap.add_argument('--runs', type=int, default=None)
    ap.add_argument('--workers', type=int, default=int(os.environ.get('DDSIM_WORKERS', '16')))
    ap.add_argument('--batch', type=int, default=None)
    ap.add_argument('--seed', type=int, default=None)
    a = ap.parse_args(argv)
    try:
        vseed = a.seed if a.seed is not None else int(os.environ.get('VERIF_SEED', '0') or 0)
    except ValueError:
        vseed = 0
    from ddsim import budgets, master
    if a.prop not in budgets.BUDGET:
        print(f'HARNESS-ERROR unknown property {a.prop}')
        return 2
    tier = a.tier if a.tier in ('quick', 'thorough') else 'quick'
    bud = budgets.BUDGET[a.prop][tier]
    n_runs = a.runs if a.runs is not None else bud['runs']
    batch = a.batch if a.batch is not None else bud['batch']
    return master.check(a.prop, tier, vseed, n_runs, batch, a.workers, budgets.info(a.prop))


if __name__ == '__main__':
    sys.exit(main(sys.argv[1:]))
