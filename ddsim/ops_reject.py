"""C17: the Rejector.  Each instruction makes one call that must be refused
(or at least may be), then the usual invariants run with the tag C17."""
import random

from ddsim import gen, ops, ops_expr, seams
from ddsim.ops import call, declared, node_of

GHOST = 'no_such_var'


def _after(w, ok, v, what, must=None):
    """A rejected call: raising is the expected outcome."""
    if ok:
        w.stats['reject_accepted'] += 1
        if must:
            w.fail('not_refused', f'{what} returned {v!r:.60} instead of refusing', [must])
        return
    if v[0] == '_NeedsReordering':
        w.fail('exception:_NeedsReordering', f'{what}: the internal reordering signal reached the caller', ['C09'])
    w.cur_info['expected_raise'] = True
    w.stats['rejected'] += 1
    w.stats['rejected:' + w.cur['kind']] += 1


def _undeclared_name(w, m, ins):
    dec = set(declared(w, m))
    und = [k for k in range(w.nv) if k not in dec]
    if und and ins.get('alt'):
        return w.names[und[ins['alt'] % len(und)]]
    return GHOST


def op_reject(w, ins):
    m = ins.get('m', 0)
    g = w.mgrs[m]
    kind = ins['kind']
    a = w.pick(ins.get('a', 0), m)
    b = w.pick(ins.get('b', 0), m)
    dec = declared(w, m)
    D = seams.DD
    raw = g.flavor == 'raw'
    bad = _undeclared_name(w, m, ins)
    if kind == 'var':
        ok, v = call(w, g.api.var, bad)
        _after(w, ok, v, f'var({bad!r})')
    elif kind == 'let':
        if a is None:
            return 'skip'
        names = [w.names[k] for k in dec[:ins.get('n', 1)]]
        pos = ins.get('pos', 0) % (len(names) + 1)
        names.insert(pos, bad)
        t = ins.get('t', 0) % 3
        if t == 0:
            d = {n: bool(i % 2) for i, n in enumerate(names)}
        elif t == 1:
            d = {n: a.ref for n in names}
        else:
            d = {n: (w.names[dec[0]] if dec else 'q') for n in names}
        ok, v = call(w, g.api.let, d, a.ref)
        del d
        _after(w, ok, v, f'let with undeclared {bad!r} at position {pos}')
    elif kind == 'quant':
        if a is None:
            return 'skip'
        names = [w.names[k] for k in dec[:ins.get('n', 1)]]
        pos = ins.get('pos', 0) % (len(names) + 1)
        names.insert(pos, bad)
        ok, v = call(w, g.api.quantify, a.ref, names, bool(ins.get('forall')))
        _after(w, ok, v, f'quantify over undeclared {bad!r}')
    elif kind == 'cube':
        names = [w.names[k] for k in dec[:ins.get('n', 1)]]
        pos = ins.get('pos', 0) % (len(names) + 1)
        names.insert(pos, bad)
        ok, v = call(w, g.api.cube, {n: True for n in names})
        _after(w, ok, v, f'cube with undeclared {bad!r}')
    elif kind in ('formula_name', 'formula_syntax', 'formula_node'):
        # an otherwise valid formula with one offending token at a seeded place
        ast = ins['ast']
        if ops_expr.eval_ast(w, m, ast, dec) is None:
            return 'skip'
        rd = ops_expr.Renderer(w, m, ins['style'])
        rd.comments = False
        text = rd.top(ast)
        r = random.Random(ins['style'] ^ 0x5bd1)
        spots = [i for i, ch in enumerate(text) if ch == ' ']
        if kind == 'formula_syntax':
            tok = ['$', ') (', '/\\ /\\', ', ,', '=> <=>', '( )'][ins.get('tok', 0) % 6]
            if spots:
                p = spots[ins.get('pos', 0) % len(spots)]
            else:
                p = len(text)
            text = text[:p] + ' ' + tok + ' ' + text[p:]
        else:
            tok = bad if kind == 'formula_name' else '@' + str(max(w.snapshot(m).succ) + 3 + ins.get('pos', 0) % 5)
            conn = r.choice(['/\\', '\\/', '=>', '<=>', '#'])
            if ins.get('pos', 0) % 2:
                text = '(' + text + ') ' + conn + ' ' + tok
            else:
                text = tok + ' ' + conn + ' (' + text + ')'
        ok, v = call(w, g.api.add_expr, text)
        _after(w, ok, v, f'add_expr({text!r})')
    elif kind == 'foreign':
        if raw or a is None or len(w.mgrs) < 2:
            return 'skip'
        f = w.pick(ins.get('b', 0), 1)
        if f is None:
            return 'skip'
        t = ins.get('t', 0) % 5
        if t == 0:
            ok, v = call(w, g.api.apply, 'and', a.ref, f.ref)
        elif t == 1:
            ok, v = call(w, g.api.ite, f.ref, a.ref, a.ref)
        elif t == 2:
            ok, v = call(w, lambda x, y: x & y, a.ref, f.ref)
        elif t == 3:
            ok, v = call(w, g.api.exist, [w.names[k] for k in dec[:1]], f.ref)
        else:
            ok, v = call(w, g.api.let, {w.names[dec[0]]: True} if dec else {'q': True}, f.ref)
        _after(w, ok, v, 'operation with a Function of another manager')
    elif kind == 'unknown_node':
        if a is None:
            return 'skip'
        n = max(w.snapshot(m).succ) + 3 + ins.get('pos', 0) % 7
        if ins.get('neg'):
            n = -n
        t = ins.get('t', 0) % 6
        if t == 0:
            ok, v = call(w, g.api._add_int, n)
        elif not raw:
            ok, v = call(w, g.api._add_int, n)
        elif t == 1:
            ok, v = call(w, g.api.apply, 'and', a.ref, n)
        elif t == 2:
            ok, v = call(w, g.api.apply, 'not', n)
        elif t == 3:
            ok, v = call(w, g.api.to_expr, n)
        elif t == 4:
            ok, v = call(w, g.api.let, {w.names[dec[0]]: True} if dec else {'q': True}, n)
        else:
            ok, v = call(w, g.api.count, n)
        _after(w, ok, v, f'unknown node {n}')
    elif kind == 'operator':
        if a is None:
            return 'skip'
        sym = ['nand', 'AND', '&&&', '=', '<', 'nor', '', 'itee', '\\a'][ins.get('t', 0) % 9]
        ok, v = call(w, g.api.apply, sym, a.ref, b.ref)
        _after(w, ok, v, f'apply({sym!r})')
    elif kind == 'arity':
        if a is None:
            return 'skip'
        t = ins.get('t', 0) % 5
        if t == 0:
            ok, v = call(w, g.api.apply, 'and', a.ref)
        elif t == 1:
            ok, v = call(w, g.api.apply, 'not', a.ref, b.ref)
        elif t == 2:
            ok, v = call(w, g.api.apply, 'ite', a.ref, b.ref)
        elif t == 3:
            ok, v = call(w, g.api.apply, 'or', a.ref, b.ref, a.ref)
        else:
            ok, v = call(w, g.api.apply, '~', a.ref, None, b.ref)
        _after(w, ok, v, 'apply with wrong arity')
    elif kind == 'level':
        order = w.snapshot(m).order or []
        n = len(order)
        t = ins.get('t', 0) % 2
        if t == 0 and n >= 2:
            i = ins.get('pos', 0) % n
            j = (i + 1 + ins.get('n', 0) % (n - 1)) % n
            ok, v = call(w, g.api.add_var, order[i], j)
            _after(w, ok, v, f'add_var({order[i]!r}, {j}) for a variable at level {i}', must='C14')
        elif n >= 1:
            und = [k for k in range(w.nv) if k not in dec]
            if not und:
                return 'skip'
            nm = w.names[und[ins.get('alt', 0) % len(und)]]
            j = ins.get('pos', 0) % n
            ok, v = call(w, g.api.add_var, nm, j)
            _after(w, ok, v, f'add_var({nm!r}, {j}) at an occupied level', must='C14')
        else:
            return 'skip'
    elif kind == 'order':
        order = list(w.snapshot(m).order or [])
        n = len(order)
        if n < 1:
            return 'skip'
        t = ins.get('t', 0) % 3
        fn = ops._reorder_fn(w, g)
        if t == 0:
            od = {nm: l for l, nm in enumerate(order[:-1])}
        elif t == 1:
            od = {nm: l for l, nm in enumerate(order)}
            od[GHOST] = n
        else:
            od = {nm: l for l, nm in enumerate(reversed(order))}
            od.pop(order[ins.get('pos', 0) % n])
            od[GHOST] = n
        ok, v = call(w, fn, od)
        _after(w, ok, v, f'reorder with a bad order {od}')
    elif kind == 'undeclare':
        if not raw:
            return 'skip'
        sn = w.snapshot(m)
        used = sorted({t[0] for u, t in sn.succ.items() if u != 1})
        t = ins.get('t', 0) % 2
        if t == 0 and used:
            nm = sn.order[used[ins.get('pos', 0) % len(used)]]
            free = [x for l, x in enumerate(sn.order) if l not in used][:ins.get('n', 0) % 2]
            args = free + [nm] if ins.get('pos', 0) % 2 else [nm] + free
            ok, v = call(w, g.raw.undeclare_vars, *args)
            _after(w, ok, v, f'undeclare_vars{tuple(args)} with {nm!r} in use', must='C14')
        else:
            args = [x for x in (sn.order or [])[:ins.get('n', 0) % 2]] + [GHOST]
            ok, v = call(w, g.raw.undeclare_vars, *args)
            _after(w, ok, v, f'undeclare_vars{tuple(args)} with an unknown name', must='C14')
    elif kind == 'load_clash':
        # a pickle whose variables clash with the receiving manager at a seeded
        # position of the file's variable table: the receiver declares one
        # spare name at a level that the file gives to another variable
        if a is None or len(w.mgrs) < 2 or w.slots_of(1) or m != 0:
            return 'skip'
        spare = [k for k in range(w.nv) if k not in dec]
        if not spare or len(dec) < 2:
            return 'skip'
        ok, v = call(w, g.api.dump, 'clash.p', [a.ref])
        if not ok:
            return 'skip'
        g1 = w.new_manager(1, [])
        lvl = ins.get('pos', 0) % len(dec)
        nm = w.names[spare[ins.get('alt', 0) % len(spare)]]
        # fill levels 0..lvl with spare names where possible, else only level 0
        names1 = [w.names[k] for k in spare[:lvl + 1]]
        if len(names1) < lvl + 1:
            names1 = [nm]
        for x in names1:
            g1.api.add_var(x)
        w.touch()
        ok, v = call(w, g1.api.load, 'clash.p')
        _after(w, ok, v, f'load of a pickle whose levels clash with the receiver {names1}')
    elif kind == 'copy_missing_var':
        # copy of a function whose support the target does not declare
        if a is None or len(w.mgrs) < 2:
            return 'skip'
        src, dst = (m, 1 - m)
        gd = w.mgrs[dst]
        decd = set(declared(w, dst))
        cand = [s_ for s_ in w.slots_of(src) if set(w.tt.support(s_.tt)) - decd]
        if not cand:
            return 'skip'
        s_ = cand[ins.get('pos', 0) % len(cand)]
        t = ins.get('t', 0) % 2
        if t == 0 or raw:
            ok, v = call(w, g.api.copy, s_.ref, gd.api)
        else:
            ok, v = call(w, D.autoref.copy_bdd, s_.ref, gd.api)
        _after(w, ok, v, 'copy of a function whose variables the target does not declare')
    elif kind == 'image_unknown_node':
        if not raw or a is None or len(dec) < 2:
            return 'skip'
        n = max(w.snapshot(m).succ) + 3 + ins.get('pos', 0) % 5
        order = w.snapshot(m).order
        fn = D.bdd.preimage if ins.get('t', 0) % 2 else D.bdd.image
        args = (a.ref, n) if ins.get('n', 0) % 2 else (n, a.ref)
        ok, v = call(w, fn, args[0], args[1], {order[0]: order[1]}, {order[1]}, g.raw)
        _after(w, ok, v, 'image/preimage with a node that is not in the manager')
    elif kind == 'load_bad_pickle':
        # a pickle whose node table mentions a node it does not contain
        if a is None:
            return 'skip'
        import pickle as _pk
        order = w.snapshot(m).order
        if not order:
            return 'skip'
        vars_ = {nm: l for l, nm in enumerate(order)}
        succ = {1: (len(order), None, None), 2: (0, -1, 1), 3: (0, 7 + ins.get('pos', 0) % 3, 2)}
        if ins.get('t', 0) % 2:
            succ = {3: (0, 2, 9), 2: (0, -1, 1), 1: (len(order), None, None)}
        w.put_file('bad.p', _pk.dumps(dict(vars=vars_, succ=succ, roots=[3]), protocol=2))
        ok, v = call(w, g.api.load, 'bad.p')
        _after(w, ok, v, 'load of a pickle with an inconsistent node table')
    elif kind == 'bad_everywhere':
        # one more family: every public entry point given a node, a name or a
        # level that does not exist (seeded choice of entry point)
        if a is None:
            return 'skip'
        sn = w.snapshot(m)
        order = sn.order or []
        n_bad = max(sn.succ) + 2 + ins.get('pos', 0) % 6
        if ins.get('neg'):
            n_bad = -n_bad
        t = ins.get('t', 0) % 14
        what = None
        if raw:
            b_ = g.raw
            if t == 0:
                what, (ok, v) = 'ite with an unknown node', call(w, b_.ite, a.ref, n_bad, a.ref)
            elif t == 1:
                what, (ok, v) = 'quantify of an unknown node', call(w, b_.quantify, n_bad, [order[0]] if order else [], False)
            elif t == 2:
                what, (ok, v) = 'support of an unknown node', call(w, b_.support, n_bad)
            elif t == 3:
                what, (ok, v) = 'pick_iter of an unknown node', call(w, lambda: list(b_.pick_iter(n_bad)))
            elif t == 4:
                what, (ok, v) = 'descendants of an unknown node', call(w, b_.descendants, [a.ref, n_bad])
            elif t == 5:
                what, (ok, v) = 'incref of an unknown node', call(w, b_.incref, n_bad)
            elif t == 6:
                what, (ok, v) = 'collect_garbage rooted at an unknown node', call(w, b_.collect_garbage, [a.ref, n_bad])
            elif t == 7:
                what, (ok, v) = 'dump of an unknown root', call(w, b_.dump, 'bad_root.p', [a.ref, n_bad])
            elif t == 8 and len(w.mgrs) > 1:
                what, (ok, v) = 'copy of an unknown node', call(w, b_.copy, n_bad, w.mgrs[1 - m].raw)
            elif t == 9 and order:
                lv = len(order) + ins.get('n', 0)
                what, (ok, v) = 'find_or_add at a level that does not exist', call(w, b_.find_or_add, lv, -1, 1)
            elif t == 10 and order:
                what, (ok, v) = 'find_or_add with an unknown child', call(w, b_.find_or_add, 0, n_bad, 1)
            elif t == 11 and len(order) >= 2:
                what, (ok, v) = 'reorder_to_pairs with an unknown variable', call(w, D.bdd.reorder_to_pairs, b_, {order[0]: GHOST})
            elif t == 12 and len(order) >= 2:
                what, (ok, v) = 'image with overlapping rename', call(w, D.bdd.image, a.ref, b.ref, {order[0]: order[1], order[1]: order[0]}, set(), b_)
            elif t == 13:
                what, (ok, v) = 'to_nx of an unknown root', call(w, D.bdd.to_nx, b_, {n_bad})
        else:
            api = g.api
            if t % 7 == 0:
                what, (ok, v) = 'var_at_level out of range', call(w, api.var_at_level, len(order) + ins.get('n', 0))
            elif t % 7 == 1:
                what, (ok, v) = 'level_of_var of an unknown name', call(w, api.level_of_var, GHOST)
            elif t % 7 == 2:
                what, (ok, v) = 'let with values of mixed types', call(w, api.let, {order[0]: a.ref, GHOST: True} if order else {GHOST: True}, a.ref)
            elif t % 7 == 3:
                what, (ok, v) = 'find_or_add with an unknown variable', call(w, api.find_or_add, GHOST, a.ref, a.ref)
            elif t % 7 == 4:
                what, (ok, v) = 'quantify over an unknown name', call(w, lambda f: f.exist(GHOST), a.ref)
            elif t % 7 == 5:
                what, (ok, v) = 'dump with an unknown file type', call(w, api.dump, 'x.p', [a.ref], 'nope')
            else:
                what, (ok, v) = 'count with a negative number of variables', call(w, api.count, a.ref, -1)
        if what is None:
            return 'skip'
        _after(w, ok, v, what)
    elif kind == 'ctor_unknown':
        # `Function(n, bdd)` for an `n` that is not a node: refused.  The
        # exception (and with it the half-built object in the traceback's
        # frame) is kept by the caller, as an error log or pytest would, and
        # goes away only at a later scheduler point
        if raw:
            return 'skip'
        n = max(w.snapshot(m).succ) + 1 + ins.get('pos', 0) % 3
        if ins.get('neg'):
            n = -n
        F = D.autoref.Function
        w.cur_info['raised'] = None
        try:
            F(n, g.api)
            w.stats['reject_accepted'] += 1
        except Exception as e:
            cell = [e]
            cell.append(cell)           # parked; finalized by the scheduler
            del e, cell
            w.cur_info['raised'] = 'ValueError'
            w.cur_info['expected_raise'] = True
            w.stats['rejected'] += 1
            w.stats['rejected:ctor_unknown'] += 1
        w.touch()
    elif kind == 'decref_zero':
        # one release too many: `decref` of a node whose count is 0 is
        # documented to warn and to have no effect
        if not raw:
            return 'skip'
        sn = w.snapshot(m)
        zero = sorted(u for u, c in sn.refs.items() if c == 0 and u != 1)
        if not zero:
            return 'skip'
        u = zero[ins.get('pos', 0) % len(zero)]
        if ins.get('neg'):
            u = -u
        ok, v = call(w, g.raw.decref, u)
        if not ok:
            w.fail('exception:' + v[0], f'decref of a node with count 0 raised {v[1]} (documented: a warning, no effect)', owner_tags(w, 'C06'))
        ev = seams.QUIET.drain()
        warned = [e for e in ev if e[0] == 'warning' and e[1] == 'UserWarning']
        rest = [e for e in ev if e not in warned]
        seams.QUIET.events.extend(rest)
        w.stats['decref_at_zero'] += 1
        w.stats['decref_at_zero_warned'] += int(bool(warned))
        w.cur_info['raised'] = 'UserWarning'
        w.cur_info['expected_raise'] = True
        w.touch()
    elif kind == 'swap_bad':
        # swap with arguments it must refuse
        if not raw:
            return 'skip'
        order = w.snapshot(m).order or []
        n = len(order)
        if n < 1:
            return 'skip'
        t = ins.get('t', 0) % 7
        i = ins.get('pos', 0) % n
        if t == 5:
            args = (n - 1, n)                             # the last variable and the terminal's level
        elif t == 6:
            args = (n, n - 1) if ins.get('neg') else (-1, 0)
        elif t == 0:
            args = (order[i], order[i])                   # the same variable twice
        elif t == 1:
            args = (i, i)                                 # the same level twice
        elif t == 2 and n >= 3:
            j = (i + 2) % n
            args = (min(i, j), max(i, j)) if abs(i - j) != 1 else (order[i], GHOST)
        elif t == 3:
            args = (order[i], GHOST)                      # unknown name
        else:
            args = (i, n + ins.get('n', 0))               # level out of range
        ok, v = call(w, g.raw.swap, *args)
        _after(w, ok, v, f'swap{args}')
    elif kind == 'extension':
        if a is None:
            return 'skip'
        t = ins.get('t', 0) % 4
        if t == 0:
            ok, v = call(w, g.api.dump, 'out.xyz', [a.ref])
        elif t == 1:
            ok, v = call(w, g.api.load, 'out.xyz')
        elif t == 2:
            ok, v = call(w, g.api.dump, 'out.p', [a.ref], 'tiff')
        else:
            ok, v = call(w, g.api.load, 'missing.p')
        _after(w, ok, v, 'dump/load with unknown extension or missing file')
    else:
        return 'skip'


KINDS = ['var', 'let', 'quant', 'cube', 'formula_name', 'formula_syntax', 'formula_node',
         'foreign', 'unknown_node', 'operator', 'arity', 'level', 'order', 'undeclare', 'extension',
         'load_clash', 'copy_missing_var', 'image_unknown_node', 'load_bad_pickle', 'swap_bad', 'bad_everywhere', 'bad_everywhere', 'ctor_unknown', 'decref_zero']


def gen_reject(w, r, cfg):
    kind = r.choice(cfg.get('reject_kinds') or KINDS)
    d = dict(op='reject', kind=kind, a=r.randrange(1 << 16), b=r.randrange(1 << 16),
             pos=r.randrange(64), t=r.randrange(64), n=r.randrange(4), alt=r.randrange(8),
             forall=r.randrange(2), neg=r.randrange(2), tok=r.randrange(6))
    if kind.startswith('formula'):
        d['ast'] = ops_expr.gen_ast(r, w, r.choice([1, 2, 3]), ('v', 'v', 'c'))
        d['style'] = r.randrange(1 << 30)
    return d


ops.register('reject', op_reject, 'C17')
gen.register('reject', gen_reject)
