"""Seams: where the simulator takes hold of `dd` from outside.

No hook lives in /repo.  Every seam is a module-level name that Python
resolves at call time (DESIGN §2).  `preflight()` asserts that each one
still exists; a missing seam is a HARNESS-ERROR, never a VIOLATION.
"""
import gc
import importlib
import os
import sys
import warnings


class HarnessError(Exception):
    pass


class DD:
    """Namespace of the imported `dd` modules."""
    bdd = None
    autoref = None
    copy = None
    parser = None
    mdd = None
    dddmp = None
    utils = None
    abc = None


_loaded = False


def dd_src():
    return os.environ.get('DD_SRC', '/repo')


def load_dd():
    """Import `dd` from `$DD_SRC` (default /repo), never from elsewhere."""
    global _loaded
    if _loaded:
        return DD
    src = os.path.abspath(dd_src())
    if not os.path.isdir(os.path.join(src, 'dd')):
        raise HarnessError(f'no dd package under {src}')
    sys.dont_write_bytecode = True
    # make sure `dd` resolves to $DD_SRC/dd
    for k in [k for k in sys.modules if k == 'dd' or k.startswith('dd.')]:
        del sys.modules[k]
    sys.path.insert(0, src)
    import logging
    logging.getLogger('dd').setLevel(logging.CRITICAL)
    logging.getLogger('astutils').setLevel(logging.CRITICAL)
    DD.bdd = importlib.import_module('dd.bdd')
    DD.autoref = importlib.import_module('dd.autoref')
    DD.copy = importlib.import_module('dd._copy')
    DD.parser = importlib.import_module('dd._parser')
    DD.mdd = importlib.import_module('dd.mdd')
    DD.dddmp = importlib.import_module('dd.dddmp')
    DD.utils = importlib.import_module('dd._utils')
    DD.abc = importlib.import_module('dd._abc')
    got = os.path.dirname(os.path.abspath(DD.bdd.__file__))
    if got != os.path.join(src, 'dd'):
        raise HarnessError(f'dd imported from {got}, wanted {src}/dd')
    _loaded = True
    preflight()
    return DD


def preflight():
    need = [
        (DD.bdd, '_request_reordering'), (DD.bdd, 'logger'), (DD.bdd, 'REORDER_STARTS'),
        (DD.bdd, 'REORDER_FACTOR'), (DD.bdd, 'GROWTH_FACTOR'),
        (DD.bdd, 'open'), (DD.copy, 'open'), (DD.copy, 'os'),
        (DD.copy, 'shutil'), (DD.copy, '_open_shelf'),
        (DD.utils, 'open'), (DD.utils, '_sbp'), (DD.dddmp, 'open'),
        (DD.parser, '_parsers'),
    ]
    import builtins
    for mod, name in need:
        if hasattr(mod, name):
            continue
        if name == 'open' and hasattr(builtins, 'open'):
            continue   # resolved through builtins; can still be shadowed
        raise HarnessError(f'seam missing: {mod.__name__}.{name}')


# ---------------------------------------------------------------------------
# S1 / S2: pass-through wrapper around the node-creation request
# ---------------------------------------------------------------------------

class AllocSeam:
    """Counts node-creation requests; offers a pre-emption point.

    The wrapped function is always the repository's own
    `_request_reordering`; the decision to raise stays with it.
    """

    def __init__(self):
        self.real = None
        self.calls = 0          # requests since `begin_op`
        self.points = 0         # logger pre-emption points since `begin_op`
        self.total = 0
        self.hook = None        # callable(bdd, k) or None
        self.fired = 0          # _NeedsReordering raised since `begin_op`
        self.in_hook = False

    def install(self):
        m = DD.bdd
        if self.real is not None:
            return
        self.real = m._request_reordering
        real = self.real
        seam = self

        def _request_reordering(bdd):
            seam.calls += 1
            seam.total += 1
            h = seam.hook
            if h is not None and not seam.in_hook:
                seam.in_hook = True
                try:
                    h(bdd, seam.calls + seam.points)
                finally:
                    seam.in_hook = False
            try:
                return real(bdd)
            except m._NeedsReordering:
                seam.fired += 1
                raise
        _request_reordering.__wrapped__ = real
        m._request_reordering = _request_reordering

        # second family of pre-emption points: the module-level `logger` of
        # dd.bdd (called at the start of every swap, after every sifted
        # variable, around reorder): a pass-through proxy
        real_logger = m.logger

        class _LoggerProxy:
            def __getattr__(self, name):
                return getattr(real_logger, name)

            def _point(self):
                seam.points += 1
                h = seam.hook
                if h is not None and not seam.in_hook:
                    seam.in_hook = True
                    try:
                        h(None, seam.calls + seam.points)
                    finally:
                        seam.in_hook = False

            def debug(self, *a, **kw):
                self._point()
                return real_logger.debug(*a, **kw)

            def info(self, *a, **kw):
                self._point()
                return real_logger.info(*a, **kw)

            def warning(self, *a, **kw):
                self._point()
                return real_logger.warning(*a, **kw)
        self.real_logger = real_logger
        m.logger = _LoggerProxy()

    def uninstall(self):
        if self.real is not None:
            DD.bdd._request_reordering = self.real
            DD.bdd.logger = self.real_logger
            self.real = None

    def begin_op(self, hook=None):
        self.calls = 0
        self.points = 0
        self.fired = 0
        self.hook = hook

    def end_op(self):
        self.hook = None


ALLOC = AllocSeam()


# ---------------------------------------------------------------------------
# S7: unraisable exceptions and warnings
# ---------------------------------------------------------------------------

class Quiet:
    def __init__(self):
        self.events = []
        self._old_hook = None
        self._old_show = None

    def install(self):
        self._old_hook = sys.unraisablehook
        self._old_show = warnings.showwarning
        ev = self.events

        def hook(unraisable):
            et = unraisable.exc_type.__name__ if unraisable.exc_type else '?'
            msg = str(unraisable.exc_value)[:200]
            obj = getattr(unraisable.object, '__qualname__', None) or type(
                unraisable.object).__name__
            ev.append(('unraisable', et, msg, obj))

        def show(message, category, filename, lineno, file=None, line=None):
            ev.append(('warning', category.__name__, str(message)[:200],
                       os.path.basename(filename)))
        sys.unraisablehook = hook
        warnings.showwarning = show
        warnings.simplefilter('always')

    def drain(self):
        out = list(self.events)
        del self.events[:]
        return out


QUIET = Quiet()


def setup_process():
    """Per-process setup of a simulator process."""
    gc.disable()
    sys.setrecursionlimit(5000)
    load_dd()
    ALLOC.install()
    QUIET.install()


def reset_parser_singleton():
    """S6: a run is a pure function of its seed."""
    tr = DD.parser._parsers.pop('boolean', None)
    if tr is not None:
        # a parse that raised leaves the manager and, on PLY's stack, node
        # references behind; PLY's module-global `parse` keeps the parser
        # itself alive until the next one is built
        tr.__dict__['_bdd'] = None
        lr = tr.__dict__.get('parser')
        for attr in ('symstack', 'statestack'):
            st = getattr(lr, attr, None)
            if isinstance(st, list):
                del st[:]
    try:
        import ply.yacc
        if 'parse' in ply.yacc.__dict__:
            ply.yacc.__dict__['parse'] = None
    except ImportError:
        pass
