"""Seeded randomness: one integer decides everything.

`stream(seed, *labels)` gives an independent `random.Random` per purpose
(configuration, operation generation, fault placement), so that adding a
draw in one place does not shift the others.
"""
import random

_M = (1 << 64) - 1


def splitmix64(x):
    x = (x + 0x9E3779B97F4A7C15) & _M
    z = x
    z = ((z ^ (z >> 30)) * 0xBF58476D1CE4E5B9) & _M
    z = ((z ^ (z >> 27)) * 0x94D049BB133111EB) & _M
    return z ^ (z >> 31)


def mix(*parts):
    """Hash integers / strings into one 64-bit integer (no use of `hash`)."""
    h = 0x243F6A8885A308D3
    for p in parts:
        if isinstance(p, str):
            v = 0
            for ch in p.encode('utf8'):
                v = (v * 257 + ch + 1) & _M
            p = v
        h = splitmix64(h ^ (int(p) & _M))
    return h


def stream(seed, *labels):
    return random.Random(mix(seed, *labels))


def weighted(rng, table):
    """Pick a key of `table` (list of (key, weight)) with given weights."""
    total = 0
    for _, w in table:
        total += w
    x = rng.random() * total
    acc = 0
    for k, w in table:
        acc += w
        if x < acc:
            return k
    return table[-1][0]
