"""Run counts per property and tier, and the texts that go into evidence."""

PROPS = ['C01', 'C02', 'C03', 'C04', 'C05', 'C06', 'C07', 'C08', 'C09', 'C10',
         'C11', 'C12', 'C13', 'C14', 'C15', 'C16', 'C17', 'C18']

_Q = dict(runs=9600, batch=150)
_T = dict(runs=96000, batch=500)
BUDGET = {p: dict(quick=dict(_Q), thorough=dict(_T)) for p in PROPS}
# slower profiles (finalizer census, ply table generation, disk faults)
for _p, _q, _t in [('C08', 9600, 48000), ('C16', 4800, 32000), ('C01', 9600, 64000), ('C02', 9600, 64000),
                   ('C09', 9600, 64000), ('C17', 9600, 64000)]:
    BUDGET[_p]['quick']['runs'] = _q
    BUDGET[_p]['thorough']['runs'] = _t

REAL_VS_STUB = dict(
    real=['dd.bdd', 'dd.autoref', 'dd._copy', 'dd._parser', 'dd.mdd', 'dd.dddmp', 'dd._utils', 'dd._abc',
          'ply', 'astutils', 'pickle', 'json', 'networkx', "CPython reference counting and cyclic collector"],
    stub=['open / os.makedirs / shutil.rmtree / shelve (SimFS, in memory, fault-injecting)',
          'subprocess.run for the dot program',
          'the *timing* of the cyclic collector (gc disabled; collections only where the scheduler says)',
          'the position of the growth threshold of dynamic reordering (state written from outside; the trigger decision is the repository code)'])

ASSUMPTIONS = [
    'truth-table reference model (ddsim/model.py) and the independent denotation walk are correct',
    'the ledger of user-side handles is complete (a stray Function in harness frames is reported as HARNESS-ERROR via a collector census)',
    'CPython finalizes an unreachable acyclic Function immediately and a cyclic one only at gc.collect(), which is disabled outside scheduler points',
    'sampling: a clean batch is evidence, not proof; bounds: <= 9 variables, <= a few hundred steps per run',
]

RULE = ('runs are generated from H(VERIF_SEED, property, run_index): a swarm configuration (flavour raw|autoref, 1-9 variable names '
        'drawn from a pool, enabled op kinds and weights, knobs, finalizer mode, fault kinds) and a lazily generated, fully resolved '
        'trace of total instructions executed against the real dd code with invariants checked after every step. '
        'distinct_nontrivial = number of distinct run signatures (hash of the sequence of (op kind, variant, in-op creation-request bucket, '
        'reordering fired, finalizer ran in op, skipped) plus the set of variable orders visited) among runs in which at least one '
        'operation owned by this property was judged after at least one background event or fault (collection, swap, reorder, '
        'declaration, finalizer, armed threshold that fired, disk fault).')


def info(prop):
    return dict(rule=RULE, real_vs_stub=REAL_VS_STUB, assumptions=ASSUMPTIONS)
