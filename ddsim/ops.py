"""Execution of trace instructions against the real `dd` code.

Every instruction is *total*: if its precondition does not hold in the
current world (e.g. in a shrunk trace) it degrades to a no-op, so any
subsequence of a trace is a valid schedule (DESIGN §3.1).

An executor performs the call through `call()`, compares what came back
with the reference model, and registers new user-side handles.  It never
keeps a `Function` in a frame that outlives the call.
"""
from ddsim import seams
from ddsim.world import Stop, node_of

# ---------------------------------------------------------------------------
# vocabulary (written from doc.md / the docstrings, not from `apply`)
# ---------------------------------------------------------------------------
UNARY = ['not', '~', '!']
BINARY = {
    'and': ['and', '/\\', '&', '&&'],
    'or': ['or', '\\/', '|', '||'],
    'xor': ['#', 'xor', '^'],
    'implies': ['=>', '->', 'implies'],
    'equiv': ['<=>', '<->', 'equiv'],
    'diff': ['diff', '-'],
}
QUANT = {'forall': ['\\A', 'forall'], 'exists': ['\\E', 'exists']}
SYM2CONN = {}
for _c, _syms in BINARY.items():
    for _s in _syms:
        SYM2CONN[_s] = _c
ALL_BINARY_SYMS = sorted(SYM2CONN)


def conn(T, c, a, b):
    if c == 'and':
        return a & b
    if c == 'or':
        return a | b
    if c == 'xor':
        return a ^ b
    if c == 'implies':
        return T.implies(a, b)
    if c == 'equiv':
        return T.equiv(a, b)
    if c == 'diff':
        return T.diff(a, b)
    raise KeyError(c)


# ---------------------------------------------------------------------------
# calling into dd
# ---------------------------------------------------------------------------

class AllocFault(Exception):
    """The armed node limit (`max_nodes`) was hit inside the call (F-alloc)."""


# instructions that may run under a node limit: one dd call, nothing held
# across it, no level swaps inside (a swap that runs out of nodes half-way
# cannot be atomic, and nothing claims it is)
ALLOC_OPS = {'apply', 'ite', 'fop', 'quant', 'let', 'cube', 'find_or_add', 'add_expr', 'var', 'copy', 'image'}


def call(w, fn, *a, **kw):
    """Run one dd call. Returns (True, value) or (False, (type, msg))."""
    A = seams.ALLOC
    info = w.cur_info

    def hook(bdd, k):
        pf = w.pending_final
        if pf is not None and k >= pf:
            w.pending_final = None
            if w.finalize():
                info['final_in_op'] = True
                w.stats['final_in_op'] += 1
    A.begin_op(hook if w.pending_final is not None else None)
    w.last_call = (fn, a, kw)
    tracer_on = False
    if w.pending_line is not None and w.limbo:
        # fine-grained mode: the finalizers run at the k-th *line* executed
        # inside dd/bdd.py or dd/autoref.py during this call (sys.settrace)
        import sys as _sys
        src = seams.DD.bdd.__file__
        src2 = seams.DD.autoref.__file__
        state = [w.pending_line]
        w.pending_line = None

        def local(frame, event, arg):
            if event == 'line' and state[0] is not None:
                state[0] -= 1
                if state[0] <= 0:
                    state[0] = None
                    _sys.settrace(None)
                    if w.finalize():
                        info['final_in_op'] = True
                        info['final_at_line'] = f'{frame.f_code.co_name}:{frame.f_lineno}'
                        w.stats['final_at_line'] += 1
                    return None
            return local

        def tracer(frame, event, arg):
            if state[0] is None:
                return None
            fnm = frame.f_code.co_filename
            if fnm == src or fnm == src2:
                return local
            return None
        _sys.settrace(tracer)
        tracer_on = True
    try:
        try:
            v = fn(*a, **kw)
            return True, v
        except Stop:
            raise
        except seams.HarnessError:
            raise
        except Exception as e:
            r = (type(e).__name__, str(e)[:300])
            e.__traceback__ = None
            del e
            info['raised'] = r[0]
            if w.alloc_armed and r[0] == 'RuntimeError' and 'max_nodes' in r[1]:
                info['fault'] = 'alloc'
                raise AllocFault()
            return False, r
    finally:
        if tracer_on:
            import sys as _sys
            _sys.settrace(None)
        info['calls'] = info.get('calls', 0) + A.calls
        info['fired'] = info.get('fired', 0) + A.fired
        if A.fired:
            w.stats['reorder_fired_in_op'] += 1
            if w.cfg.get('natural'):
                w.stats['reorder_fired_naturally_at_default_constants'] += 1
        A.end_op()
        w.touch()


def owner_tags(w, prop):
    """Attribution (DESIGN §4.4): what happened during the call wins."""
    tags = ['C09'] if w.cur_info.get('fired') else [prop]
    if w.cur_info.get('final_in_op') and 'C08' not in tags:
        tags.append('C08')     # "no matter when other Functions are dropped"
    return tags


def stale_cache_tags(w, m, tt):
    """Attribution probe (never a verdict): was the wrong answer remembered?

    The call is repeated after emptying the manager's computed table (a
    private attribute, read only here).  If the answer is right now, the
    failure is owed to an entry that should have been flushed by one of the
    cache-invalidating events of this run; their properties are added.
    """
    lc = getattr(w, 'last_call', None)
    g = w.mgrs[m]
    if lc is None or not hasattr(g.raw, '_ite_table'):
        return []
    try:
        g.raw._ite_table = dict()
        fn, a, kw = lc
        v = fn(*a, **kw)
        w.touch()
        ok = ref_ok(w, m, v) and w.den(m, v) == tt
        del v
    except Exception:
        return []
    if not ok:
        return []
    tags = []
    if w.stats['gc_freed']:
        tags.append('C06')
    if w.stats['swap'] or w.stats['sift'] or w.stats['reorder_to'] or w.stats['pairs']:
        tags.append('C07')
    if w.stats['undeclare_removed']:
        tags.append('C14')
    w.notes.append('wrong answer disappears when the computed table is emptied')
    return tags


def check_unique_table(w, m, tags):
    """Steering probe made observable through the API (DESIGN 4.3): every
    stored node is asked for again with `find_or_add(level, low, high)`; the
    manager must answer with the node it already has.  A node missing from
    the unique table would otherwise only show when some later operation
    happens to rebuild it."""
    g = w.mgrs[m]
    sn = w.snapshot(m)
    if sn.problems:
        return
    n0 = len(sn.succ)
    for u, (i, lo, hi) in sn.succ.items():
        if lo is None:
            continue
        try:
            r = g.raw.find_or_add(i, lo, hi)
        except Exception as e:
            w.fail('exception:' + type(e).__name__, f'find_or_add({i}, {lo}, {hi}) for the stored node {u} raised {e!r:.100}', tags + ['C02'])
        if r != u:
            w.touch()
            w.fail('I-canon', f'find_or_add({i}, {lo}, {hi}) returned {r} although node {u} is stored with exactly that level and children', tags + ['C02'])
    w.touch()
    w.stats['unique_table_probe'] += 1


def ref_ok(w, m, val):
    g = w.mgrs[m]
    if g.flavor == 'raw':
        return isinstance(val, int) and not isinstance(val, bool) and abs(val) in g.raw
    F = seams.DD.autoref.Function
    return isinstance(val, F) and val.bdd is g.api and val.node is not None \
        and abs(val.node) in g.raw


def take_result(w, m, ok, val, tt, prop, keep=True, what='result'):
    """Judge a returned reference and make it a handle."""
    tags = owner_tags(w, prop)
    if not ok:
        tags = tags + [t for t in stale_cache_tags(w, m, tt) if t not in tags]
        w.fail('exception:' + val[0], f'{what}: valid call raised {val[0]}: {val[1]}', tags)
    if not ref_ok(w, m, val):
        tags = tags + [t for t in stale_cache_tags(w, m, tt) if t not in tags]
        w.fail('bad_reference', f'{what}: returned {type(val).__name__} {val!r:.80} is not a reference of the manager', tags)
    d = w.den(m, val)
    if d != tt:
        u = node_of(val)
        tags = tags + [t for t in stale_cache_tags(w, m, tt) if t not in tags]
        w.fail('wrong_result', f'{what}: returned @{u} denotes a different function than the model'
               + ('; ' + w.notes[-1] if w.notes else ''), tags)
    g = w.mgrs[m]
    if g.flavor == 'raw':
        if not keep:
            return None
        g.raw.incref(val)
        w.touch(m)
        return w.add_slot(m, val, tt)
    if not keep:
        return None
    # autoref: the same object returned twice is one handle, not two
    for s in w.slots:
        if s.ref is val:
            return s
    return w.add_slot(m, val, tt)


def expect_ok(w, ok, val, prop, what):
    if not ok:
        w.fail('exception:' + val[0], f'{what}: valid call raised {val[0]}: {val[1]}', owner_tags(w, prop))


def declared(w, m):
    """Names declared in manager m, as name indices, by level order."""
    sn = w.snapshot(m)
    if sn.order is None:
        return []
    return [w.name_idx[nm] for nm in sn.order if nm in w.name_idx]


def mask_to_ks(mask, ks):
    return [k for k in ks if (mask >> k) & 1]


# ---------------------------------------------------------------------------
# construction: var / const / connectives (C01, C02)
# ---------------------------------------------------------------------------

def op_var(w, ins):
    m = ins.get('m', 0)
    k = ins['k'] % w.nv
    if k not in declared(w, m):
        return 'skip'
    g = w.mgrs[m]
    ok, v = call(w, g.api.var, w.names[k])
    take_result(w, m, ok, v, w.tt.var[k], 'C02', what='var')


def op_const(w, ins):
    m = ins.get('m', 0)
    g = w.mgrs[m]
    val = bool(ins['v'])
    ok, v = call(w, lambda: g.api.true if val else g.api.false)
    take_result(w, m, ok, v, w.tt.mask if val else 0, 'C02', what='constant')


def op_apply(w, ins):
    m = ins.get('m', 0)
    sym = ins['sym']
    a = w.pick(ins['a'], m)
    if a is None:
        return 'skip'
    g = w.mgrs[m]
    T = w.tt
    if sym in UNARY:
        ok, v = call(w, g.api.apply, sym, a.ref)
        take_result(w, m, ok, v, T.neg(a.tt), 'C01', ins.get('keep', True), f'apply {sym!r}')
        return
    if sym == 'ite':
        b = w.pick(ins['b'], m)
        c = w.pick(ins['c'], m)
        ok, v = call(w, g.api.apply, 'ite', a.ref, b.ref, c.ref)
        take_result(w, m, ok, v, T.ite(a.tt, b.tt, c.tt), 'C01', ins.get('keep', True), 'apply ite')
        return
    b = w.pick(ins['b'], m)
    c = SYM2CONN.get(sym)
    if c is None:
        return 'skip'
    ok, v = call(w, g.api.apply, sym, a.ref, b.ref)
    take_result(w, m, ok, v, conn(T, c, a.tt, b.tt), 'C01', ins.get('keep', True), f'apply {sym!r}')


def op_ite(w, ins):
    m = ins.get('m', 0)
    a = w.pick(ins['a'], m)
    if a is None:
        return 'skip'
    b = w.pick(ins['b'], m)
    c = w.pick(ins['c'], m)
    g = w.mgrs[m]
    ok, v = call(w, g.api.ite, a.ref, b.ref, c.ref)
    take_result(w, m, ok, v, w.tt.ite(a.tt, b.tt, c.tt), 'C01', ins.get('keep', True), 'ite')


def op_fop(w, ins):
    """`Function` operators and comparisons (autoref only)."""
    m = ins.get('m', 0)
    g = w.mgrs[m]
    if g.flavor != 'autoref':
        return 'skip'
    a = w.pick(ins['a'], m)
    if a is None:
        return 'skip'
    b = w.pick(ins['b'], m)
    k = ins['k']
    T = w.tt
    if k == 'invert':
        ok, v = call(w, lambda x: ~x, a.ref)
        take_result(w, m, ok, v, T.neg(a.tt), 'C01', what='~')
    elif k in ('iand', 'ior', 'ixor'):
        # augmented assignment on a name that aliases a handle the user still
        # holds (`acc = init; acc |= step`): the result is a handle of its
        # own, `init` goes on denoting what it denoted (I-den after the step)
        def fn(x, y):
            acc = x
            if k == 'iand':
                acc &= y
            elif k == 'ior':
                acc |= y
            else:
                acc ^= y
            return acc
        want = conn(T, {'iand': 'and', 'ior': 'or', 'ixor': 'xor'}[k], a.tt, b.tt)
        ok, v = call(w, fn, a.ref, b.ref)
        if ok and v is a.ref:
            w.fail('handle_mutated', f'`acc {k[1:]}= v` on an alias returned the aliased handle itself', owner_tags(w, 'C08'))
        take_result(w, m, ok, v, want, 'C01', what=f'Function {k}')
    elif k in ('and', 'or', 'implies', 'equiv'):
        fn = {'and': lambda x, y: x & y, 'or': lambda x, y: x | y,
              'implies': lambda x, y: x.implies(y),
              'equiv': lambda x, y: x.equiv(y)}[k]
        ok, v = call(w, fn, a.ref, b.ref)
        take_result(w, m, ok, v, conn(T, k, a.tt, b.tt), 'C01', what=f'Function {k}')
    else:
        fn = {'le': lambda x, y: x <= y, 'lt': lambda x, y: x < y,
              'eq': lambda x, y: x == y, 'ne': lambda x, y: x != y}[k]
        want = {'le': T.implies(a.tt, b.tt) == T.mask,
                'lt': T.implies(a.tt, b.tt) == T.mask and a.tt != b.tt,
                'eq': a.tt == b.tt, 'ne': a.tt != b.tt}[k]
        ok, v = call(w, fn, a.ref, b.ref)
        expect_ok(w, ok, v, 'C01', f'Function {k}')
        if v is not want:
            tags = owner_tags(w, 'C01')
            if k in ('eq', 'ne') and 'C09' not in tags:
                tags = tags + ['C02']
            w.fail('wrong_result', f'Function comparison {k} returned {v!r}, model says {want}', tags)


def op_eqcheck(w, ins):
    """C02: reference equality <=> function equality, on two handles."""
    m = ins.get('m', 0)
    a = w.pick(ins['a'], m)
    if a is None:
        return 'skip'
    b = w.pick(ins['b'], m)
    same_ref = node_of(a.ref) == node_of(b.ref)
    if same_ref != (a.tt == b.tt):
        w.fail('I-canon', f'handles @{node_of(a.ref)} and @{node_of(b.ref)}: equal references {same_ref}, equal functions {a.tt == b.tt}', ['C02'])
    g = w.mgrs[m]
    one = 1 if g.flavor == 'raw' else node_of(g.api.true)
    if (node_of(a.ref) == one) != (a.tt == w.tt.mask) or (node_of(a.ref) == -one) != (a.tt == 0):
        w.fail('I-canon', f'handle @{node_of(a.ref)}: comparison with true/false disagrees with validity/unsatisfiability', ['C02'])
    # the same through the interface a user has: `==`, `!=`, hashing (handles as
    # set members and dict keys), membership in the manager, manager identity
    want = a.tt == b.tt
    tags = owner_tags(w, 'C02')
    ok, v = call(w, lambda x, y: (x == y, x != y), a.ref, b.ref)
    if not ok:
        w.fail('exception:' + v[0], f'comparison of two references raised {v[1]}', tags)
    if v != (want, not want):
        w.fail('wrong_result', f'(u == v, u != v) is {v} for {"equal" if want else "different"} functions', tags)
    ok, v = call(w, lambda x, y: (len({x, y}), y in {x: None}, hash(x) == hash(y)), a.ref, b.ref)
    if not ok:
        w.fail('exception:' + v[0], f'hashing references raised {v[1]}', tags)
    if v[0] != (1 if want else 2) or v[1] != want or (want and not v[2]):
        w.fail('wrong_result', f'references as set members / dict keys: (len of set, found as key, equal hashes) = {v} for {"equal" if want else "different"} functions', tags)
    ok, v = call(w, lambda x: x in g.api, a.ref)
    if not ok or v is not True:
        w.fail('wrong_result', f'`u in bdd` is {v!r} for a live reference of that manager', tags)
    if g.flavor == 'autoref':
        ok, v = call(w, lambda x: (str(x), int(x)), a.ref)
        if not ok or v != (f'@{node_of(a.ref)}', node_of(a.ref)):
            w.fail('wrong_result', f'(str(u), int(u)) is {v!r} for the reference @{node_of(a.ref)}', tags)
        others = [o for o in w.mgrs if o is not g and o.flavor == 'autoref']
        ok, v = call(w, lambda: (g.api == g.api, [g.api == o.api for o in others], dict(g.api.var_levels) == dict(g.api.vars)))
        if not ok or v != (True, [False] * len(others), True):
            w.fail('wrong_result', f'(manager equals itself, equals another manager, var_levels equals vars) = {v!r}', tags)
    ok, v = call(w, str, g.api)
    if g.flavor == 'autoref':
        good = ok and f'{len(g.api.vars)} BDD variables' in v and f'{len(g.api)} nodes' in v
    else:
        good = ok and f'var levels: {g.raw.vars}' in v
    if not good:
        w.fail('wrong_result', f'str(bdd) is {v!r} for {len(g.api.vars)} variables and {len(g.api)} nodes', owner_tags(w, 'C18'))


def op_nest(w, ins):
    """A nested expression, as users of `dd.autoref` write them: the inner
    result is a temporary that only the outer call holds (no variable of the
    caller refers to it).  The outer call is one of the entry points; dynamic
    reordering may fire inside either call (C09), the temporary is finalized
    when the outer call lets go of it (C08)."""
    m = ins.get('m', 0)
    g = w.mgrs[m]
    if g.flavor != 'autoref':
        return 'skip'
    a = w.pick(ins['a'], m)
    if a is None:
        return 'skip'
    b = w.pick(ins['b'], m)
    c = w.pick(ins['c'], m)
    T = w.tt
    api = g.api
    s1 = ins['sym1'] if ins['sym1'] in SYM2CONN else 'and'
    s2 = ins['sym2'] if ins['sym2'] in SYM2CONN else 'or'
    tmp = conn(T, SYM2CONN[s1], a.tt, b.tt)
    dec = declared(w, m)
    kind = ins['kind']
    owner = 'C01'
    if kind == 'apply':
        want = conn(T, SYM2CONN[s2], tmp, c.tt)
        fn = lambda x, y, z: api.apply(s2, api.apply(s1, x, y), z)
    elif kind == 'apply_r':
        want = conn(T, SYM2CONN[s2], c.tt, tmp)
        fn = lambda x, y, z: api.apply(s2, z, api.apply(s1, x, y))
    elif kind == 'apply_both':
        want = conn(T, SYM2CONN[s2], tmp, T.neg(tmp) if ins.get('neg') else tmp)
        if ins.get('neg'):
            fn = lambda x, y, z: api.apply(s2, api.apply(s1, x, y), ~api.apply(s1, x, y))
        else:
            fn = lambda x, y, z: api.apply(s2, api.apply(s1, x, y), api.apply(s1, x, y))
    elif kind == 'not':
        want = T.neg(tmp)
        fn = lambda x, y, z: api.apply('not', api.apply(s1, x, y))
    elif kind == 'ite':
        want = T.ite(tmp, c.tt, a.tt)
        fn = lambda x, y, z: api.ite(api.apply(s1, x, y), z, x)
    elif kind == 'ite_else':
        want = T.ite(c.tt, a.tt, tmp)
        fn = lambda x, y, z: api.ite(z, x, api.apply(s1, x, y))
    elif kind == 'op':
        want = conn(T, 'and' if ins.get('neg') else 'or', tmp, c.tt)
        if ins.get('neg'):
            fn = lambda x, y, z: api.apply(s1, x, y) & z
        else:
            fn = lambda x, y, z: z | api.apply(s1, x, y)
    elif kind == 'quant':
        ks = mask_to_ks(ins['vars'], dec)
        names = [w.names[k] for k in ks]
        fa = bool(ins.get('forall'))
        want = T.forall(tmp, ks) if fa else T.exists(tmp, ks)
        owner = 'C03'
        if ins.get('neg'):
            fn = lambda x, y, z: api.quantify(api.apply(s1, x, y), names, fa)
        else:
            fn = lambda x, y, z: (api.forall if fa else api.exist)(names, api.apply(s1, x, y))
    elif kind == 'let':
        prs = [(k % w.nv, bool(v)) for k, v in ins['pairs'] if (k % w.nv) in dec]
        if not prs:
            return 'skip'
        dd_ = {w.names[k]: v for k, v in prs}
        want = tmp
        for k, v in dict(prs).items():
            want = T.cof(want, k, 1 if v else 0)
        owner = 'C04'
        fn = lambda x, y, z: api.let(dd_, api.apply(s1, x, y))
    elif kind == 'expr_tmp':
        # the documented idiom: a result goes into the next formula through
        # `str(Function)`, i.e. as `@n`; the temporary handle is gone before
        # the formula is parsed, its node is still stored (nothing collects
        # in between -- with dynamic reordering on that would be the
        # caller's risk, so not then)
        if g.api.configure()['reordering']:
            return 'skip'
        c2 = SYM2CONN[s2]
        sym = {'and': '/\\', 'or': '\\/', 'xor': '^', 'implies': '=>', 'equiv': '<=>', 'diff': '-'}[c2]
        want = conn(T, c2, tmp, c.tt)
        owner = 'C05'
        fn = lambda x, y, z: api.add_expr(f'{api.apply(s1, x, y)} {sym} {z}')
    elif kind == 'let_fn':
        ks = [k for k in dec]
        if not ks:
            return 'skip'
        k = ks[ins.get('vars', 0) % len(ks)]
        want = T.compose(c.tt, {k: tmp})
        owner = 'C04'
        nm = w.names[k]
        fn = lambda x, y, z: api.let({nm: api.apply(s1, x, y)}, z)
    else:
        return 'skip'
    before = (a.tt, b.tt, c.tt)
    ok, v = call(w, fn, a.ref, b.ref, c.ref)
    del fn
    w.stats['nest'] += 1
    w.stats['nest:' + kind] += 1
    take_result(w, m, ok, v, want, owner, ins.get('keep', True), f'nested {kind}({s1!r} inner)')
    del v
    if (w.den(m, a.ref), w.den(m, b.ref), w.den(m, c.ref)) != before:
        w.fail('I-den', 'an operand of a nested expression changed', owner_tags(w, owner))


def op_probe(w, ins):
    """Directed interleaving (P-cache steering, DESIGN 4.3): an intermediate
    result that nobody references is used as an operand, a collection frees
    it, another function recycles its node number, and the same integers are
    asked again.  Both flavours; a remembered answer shows as a wrong result."""
    m = ins.get('m', 0)
    g_ = w.mgrs[m]
    a = w.pick(ins['a'], m)
    if a is None:
        return 'skip'
    b = w.pick(ins['b'], m)
    c = w.pick(ins['c'], m)
    T = w.tt
    if g_.flavor == 'raw' and g_.api.configure()['reordering']:
        # an unreferenced operand is the caller's risk when reordering can
        # fire inside the call (C09 covers dd.bdd only for referenced operands)
        return 'skip'
    s1 = ins['sym1'] if ins['sym1'] in SYM2CONN else 'and'
    s2 = ins['sym2'] if ins['sym2'] in SYM2CONN else 'or'
    api = g_.api
    ok, g = call(w, api.apply, s1, a.ref, b.ref)
    gt = conn(T, SYM2CONN[s1], a.tt, b.tt)
    tags = owner_tags(w, 'C01')
    if not ok:
        w.fail('exception:' + g[0], f'apply {s1!r} raised {g[1]}', tags)
    gnode = node_of(g)
    if w.den(m, g) != gt:
        w.fail('wrong_result', f'apply {s1!r} (probe, operand)', tags)
    sec = ins.get('second') or dict(k='apply')
    dec = declared(w, m)
    if sec['k'] == 'quant':
        ks = mask_to_ks(sec['vars'], dec)
        qn = [w.names[k] for k in ks]
        fa = bool(sec['forall'])
        owner = 'C03'

        def second(x):
            return call(w, api.quantify, x, qn, fa)

        def model(xt):
            return T.forall(xt, ks) if fa else T.exists(xt, ks)
    elif sec['k'] == 'let':
        prs = [(k % w.nv, bool(v)) for k, v in sec['pairs'] if (k % w.nv) in dec]
        dd_ = {w.names[k]: v for k, v in prs}
        if not dd_:
            return 'skip'
        owner = 'C04'

        def second(x):
            return call(w, api.let, dict(dd_), x)

        def model(xt):
            for k, v in dict(prs).items():
                xt = T.cof(xt, k, 1 if v else 0)
            return xt
    else:
        owner = 'C01'

        def second(x):
            return call(w, api.apply, s2, x, c.ref)

        def model(xt):
            return conn(T, SYM2CONN[s2], xt, c.tt)
    ok, v = second(g)
    take_result(w, m, ok, v, model(gt), owner, bool(ins.get('keep_first', True)), f'{sec["k"]} (probe, first)')
    del v, g                      # autoref: the intermediate handle dies here
    w.touch()
    if w.ledger(m)[abs(gnode)] or abs(gnode) == 1:
        return                    # somebody holds that node: it cannot be recycled
    if ins.get('rooted') and g_.flavor == 'raw':
        ok, v = call(w, g_.raw.collect_garbage, [gnode])
    else:
        ok, v = call(w, api.collect_garbage)
    expect_ok(w, ok, v, 'C06', 'collect_garbage (probe)')
    w.stats['gc_full'] += 0
    if abs(gnode) in w.snapshot(m).succ:
        return
    w.stats['gc_freed'] += 1
    w.stats['probe_freed'] += 1
    for sym3, i, j in ins['tries']:
        if sym3 not in SYM2CONN:
            continue
        x = w.pick(i, m)
        y = w.pick(j, m)
        ok, h = call(w, api.apply, sym3, x.ref, y.ref)
        if not ok:
            w.fail('exception:' + h[0], f'apply {sym3!r} raised {h[1]}', owner_tags(w, 'C01'))
        ht = conn(T, SYM2CONN[sym3], x.tt, y.tt)
        hn = node_of(h)
        if abs(hn) != abs(gnode):
            del h
            continue
        w.stats['probe_recycled'] += 1
        if w.den(m, h) != ht:
            w.fail('wrong_result', f'apply {sym3!r} (probe, recycled number)', owner_tags(w, 'C01'))
        # the same integers as in the first call
        if g_.flavor == 'raw':
            arg, at = gnode, (ht if hn == gnode else T.neg(ht))
            ok, v = second(arg)
        else:
            if hn != gnode:
                ok, nh = call(w, lambda f: ~f, h)
                if not ok:
                    return
                h = nh
                ht = T.neg(ht)
            at = ht
            ok, v = second(h)
        take_result(w, m, ok, v, model(at), owner, False, f'{sec["k"]} (probe, same integers after the number was recycled)')
        break


# ---------------------------------------------------------------------------
# quantification (C03)
# ---------------------------------------------------------------------------

def _container(kind, names):
    if kind == 0:
        return set(names)
    if kind == 1:
        return list(names)
    if kind == 2:
        return tuple(names)
    if kind == 3:
        return frozenset(names)
    if kind == 4:
        return {n: None for n in names}.keys()
    if kind == 5:
        return iter(list(names))          # one-shot iterators are Iterables too
    return (n for n in list(names))


def op_quant(w, ins):
    m = ins.get('m', 0)
    a = w.pick(ins['a'], m)
    if a is None:
        return 'skip'
    g = w.mgrs[m]
    T = w.tt
    dec = declared(w, m)
    how = ins['how']
    forall = bool(ins['forall'])
    if how == 'apply':
        b = w.pick(ins['b'], m)
        ks = T.support(b.tt)
        sym = QUANT['forall' if forall else 'exists'][ins.get('alias', 0) % 2]
        want = T.forall(a.tt, ks) if forall else T.exists(a.tt, ks)
        ok, v = call(w, g.api.apply, sym, b.ref, a.ref)
        take_result(w, m, ok, v, want, 'C03', ins.get('keep', True), f'apply {sym!r}')
        return
    ks = mask_to_ks(ins['vars'], dec)
    names = [w.names[k] for k in ks]
    want = T.forall(a.tt, ks) if forall else T.exists(a.tt, ks)
    cont = _container(ins.get('cont', 0), names)
    if ins.get('cont', 0) == 7:
        # a generator whose items are chosen by small computations in the
        # same manager (`(v for v in names if depends_on(v))`); with integer
        # references and reordering on, its intermediates would be the
        # caller's risk, so autoref only then
        if g.flavor == 'raw' and g.api.configure()['reordering']:
            cont = list(names)
        else:
            api, uref = g.api, a.ref
            chosen = set(names)
            cont = (nm for nm in [w.names[k] for k in dec]
                    if (api.apply('and', api.var(nm), uref) is not None) and nm in chosen)
    if how == 'quantify':
        if ins.get('kwarg'):
            ok, v = call(w, g.api.quantify, a.ref, cont, forall=forall)
        else:
            ok, v = call(w, g.api.quantify, a.ref, cont, forall)
    elif how == 'named':
        fn = g.api.forall if forall else g.api.exist
        ok, v = call(w, fn, cont, a.ref)
    elif how == 'fmeth':
        if g.flavor != 'autoref':
            return 'skip'
        ok, v = call(w, (lambda f, ns: f.forall(*ns)) if forall else (lambda f, ns: f.exist(*ns)), a.ref, names)
    else:
        return 'skip'
    s = take_result(w, m, ok, v, want, 'C03', ins.get('keep', True), f'{how} forall={forall} {names}')
    # the result does not depend on the quantified variables
    if s is not None:
        for k in ks:
            if T.depends(w.den(m, s.ref), k):
                w.fail('wrong_result', f'result of quantification depends on quantified {w.names[k]}', owner_tags(w, 'C03'))


# ---------------------------------------------------------------------------
# substitution (C04)
# ---------------------------------------------------------------------------

def op_let(w, ins):
    m = ins.get('m', 0)
    a = w.pick(ins['a'], m)
    if a is None:
        return 'skip'
    g = w.mgrs[m]
    T = w.tt
    dec = declared(w, m)
    kind = ins['kind']
    how = ins.get('how', 'let')
    pairs = [(k % w.nv, v) for k, v in ins['pairs']]
    pairs = [(k, v) for k, v in pairs if k in dec]
    # keys are distinct, in the given order (dict order matters for dispatch)
    seen = set()
    pp = []
    for k, v in pairs:
        if k not in seen:
            seen.add(k)
            pp.append((k, v))
    pairs = pp
    if not pairs:
        if ins.get('empty_ok') and how == 'let':
            # an empty dict of definitions changes nothing
            ok, v = call(w, g.api.let, {}, a.ref)
            take_result(w, m, ok, v, a.tt, 'C04', ins.get('keep', False), 'let with empty definitions')
            return
        return 'skip'
    if kind == 'bool':
        d = {w.names[k]: bool(v) for k, v in pairs}
        want = a.tt
        for k, v in pairs:
            want = T.cof(want, k, 1 if v else 0)
    elif kind == 'fn':
        subs = {}
        d = {}
        cm = ins.get('cm') or []
        for j, (k, v) in enumerate(pairs):
            c = cm[j] if j < len(cm) else 0
            if c == 1:
                # a constant among the replacement functions
                subs[k] = T.mask
                d[w.names[k]] = 1 if g.flavor == 'raw' else g.api.true
            elif c == 2:
                subs[k] = 0
                d[w.names[k]] = -1 if g.flavor == 'raw' else g.api.false
            else:
                s = w.pick(v, m)
                subs[k] = s.tt
                d[w.names[k]] = s.ref
        want = T.compose(a.tt, subs)
    elif kind == 'name':
        ren = {}
        for k, v in pairs:
            v = v % w.nv
            if v not in dec:
                continue
            ren[k] = v
        if not ren:
            return 'skip'
        d = {w.names[k]: w.names[v] for k, v in ren.items()}
        want = T.rename(a.tt, ren)
    else:
        return 'skip'
    before = a.tt
    if how == 'let':
        ok, v = call(w, g.api.let, d, a.ref)
    elif how == 'direct':
        if g.flavor != 'raw':
            return 'skip'
        fn = {'bool': g.api.cofactor, 'fn': g.api.compose, 'name': g.api.rename}[kind]
        ok, v = call(w, fn, a.ref, d)
    elif how == 'fmeth':
        if g.flavor != 'autoref' or not all(n.isidentifier() for n in d):
            return 'skip'
        ok, v = call(w, lambda f, dd_: f.let(**dd_), a.ref, d)
    elif how == 'module':
        # the module-level function `dd.bdd.rename(u, bdd, dvars)`
        if g.flavor != 'raw' or kind != 'name':
            return 'skip'
        ok, v = call(w, seams.DD.bdd.rename, a.ref, g.raw, d)
        w.stats['rename_module_level'] += 1
    else:
        return 'skip'
    take_result(w, m, ok, v, want, 'C04', ins.get('keep', True), f'let[{kind}/{how}]')
    del v
    if w.den(m, a.ref) != before:
        w.fail('I-den', 'operand of let changed', owner_tags(w, 'C04'))
    for fa, k2, ga in ins.get('more_single', []) if (kind == 'fn' and how == 'let') else []:
        # a few more single-variable compositions on other operands (the
        # memo of the single-variable path is keyed by node numbers: what it
        # does depends on how the nodes happen to be numbered)
        f2, g2 = w.pick(fa, m), w.pick(ga, m)
        k2 %= w.nv
        if k2 not in dec:
            continue
        ok, v = call(w, g.api.let, {w.names[k2]: g2.ref}, f2.ref)
        take_result(w, m, ok, v, T.compose(f2.tt, {k2: g2.tt}), 'C04', False, 'let[fn/single, further operands]')
        del v
    if ins.get('reuse') is not None and how in ('let', 'direct'):
        # the caller uses the very same definitions object for a second
        # operand, as in `defs = {...}; let(defs, u1); let(defs, u2)`
        b = w.pick(ins['reuse'], m)
        if kind == 'bool':
            want2 = b.tt
            for k, val in pairs:
                want2 = T.cof(want2, k, 1 if val else 0)
        elif kind == 'fn':
            want2 = T.compose(b.tt, subs)
        else:
            want2 = T.rename(b.tt, ren)
        if how == 'let':
            ok, v = call(w, g.api.let, d, b.ref)
        else:
            ok, v = call(w, fn, b.ref, d)
        take_result(w, m, ok, v, want2, 'C04', False, f'let[{kind}/{how}] with the same definitions object on a second operand')
    del d


def op_cube(w, ins):
    m = ins.get('m', 0)
    g = w.mgrs[m]
    dec = declared(w, m)
    pairs = []
    seen = set()
    for k, v in ins['pairs']:
        k %= w.nv
        if k in dec and k not in seen:
            seen.add(k)
            pairs.append((k, bool(v)))
    if ins.get('iterable'):
        arg = [w.names[k] for k, _ in pairs]
        want = w.tt.cube({k: True for k, _ in pairs})
        if g.flavor == 'autoref':
            # autoref documents `Assignment`; an iterable is passed through
            pass
    else:
        arg = {w.names[k]: v for k, v in pairs}
        want = w.tt.cube(dict(pairs))
    ok, v = call(w, g.api.cube, arg)
    take_result(w, m, ok, v, want, 'C01', ins.get('keep', True), 'cube')


def op_find_or_add(w, ins):
    m = ins.get('m', 0)
    g = w.mgrs[m]
    sn = w.snapshot(m)
    if sn.order is None or not sn.order:
        return 'skip'
    lo = w.pick(ins['lo'], m)
    if lo is None:
        return 'skip'
    hi = w.pick(ins['hi'], m)
    lv = ins['level'] % len(sn.order)
    for s in (lo, hi):
        u = abs(node_of(s.ref))
        if u not in sn.succ or sn.succ[u][0] <= lv:
            return 'skip'
    k = w.name_idx[sn.order[lv]]
    T = w.tt
    want = T.ite(T.var[k], hi.tt, lo.tt)
    if g.flavor == 'raw':
        ok, v = call(w, g.api.find_or_add, lv, lo.ref, hi.ref)
    else:
        ok, v = call(w, g.api.find_or_add, sn.order[lv], lo.ref, hi.ref)
    take_result(w, m, ok, v, want, 'C02', ins.get('keep', True), 'find_or_add')


# ---------------------------------------------------------------------------
# handle lifetime (C06 raw, C08 autoref)
# ---------------------------------------------------------------------------

def op_drop(w, ins):
    if not w.slots:
        return 'skip'
    i = ins['a'] % len(w.slots)
    s = w.slots.pop(i)
    g = w.mgrs[s.m]
    if g.flavor == 'raw':
        ok, v = call(w, g.raw.decref, s.ref)
        expect_ok(w, ok, v, 'C06', 'decref')
        return
    mode = ins.get('mode', 'now')
    ref = s.ref
    s.ref = None
    del s
    if mode == 'now':
        del ref          # CPython finalizes the handle here
        w.touch()
        w.stats['drop_now'] += 1
    elif mode in ('explicit', 'explicit_late'):
        # the handle is given back early through its `__del__()` (which the
        # code makes idempotent on purpose); the object itself goes away
        # later and must not release anything a second time
        ok, v = call(w, ref.__del__)
        expect_ok(w, ok, v, 'C08', 'Function.__del__() called directly')
        w.stats['drop_explicit'] += 1
        if mode == 'explicit_late':
            cell = [ref]
            cell.append(cell)      # an empty husk: not in the ledger
            del cell
        del ref
        w.touch()
    else:
        w.park(ref, g.idx)
        del ref


def op_dup(w, ins):
    """Another handle on the same function (raw: incref; autoref: re-wrap)."""
    if not w.slots:
        return 'skip'
    s = w.slots[ins['a'] % len(w.slots)]
    g = w.mgrs[s.m]
    how = ins.get('how', 0)
    if g.flavor == 'raw':
        ok, v = call(w, g.raw.incref, s.ref)
        expect_ok(w, ok, v, 'C06', 'incref')
        w.add_slot(s.m, s.ref, s.tt)
        return
    F = seams.DD.autoref.Function
    if how == 0:
        ok, v = call(w, lambda f: g.api._add_int(int(f)), s.ref)
    elif how == 1:
        ok, v = call(w, lambda f: F(f.node, g.api), s.ref)
    elif how == 2:
        ok, v = call(w, lambda f: g.api.copy(f, g.api), s.ref)
    elif how == 3:
        if not w.cfg.get('copy_copy'):
            return 'skip'
        import copy as _cp
        ok, v = call(w, _cp.copy, s.ref)
    else:
        return 'skip'
    take_result(w, s.m, ok, v, s.tt, 'C08', what=f'dup[{how}]')


def _rebuild_when_full(w, g, level_or_var, lo, hi, want_node):
    """Asking the manager for the node (var, low, high) that it already stores
    gives that node back -- also when the manager is full (`max_nodes`), since
    no new node is needed."""
    if g.api.configure()['reordering']:
        return
    raw = g.raw
    saved = raw.max_nodes
    raw.max_nodes = min(saved, raw._min_free + 1)      # not one more node fits
    try:
        ok, v = call(w, g.api.find_or_add, level_or_var, lo, hi)
    finally:
        raw.max_nodes = saved
    w.stats['rebuild_when_full'] += 1
    if not ok:
        w.cur_info.pop('raised', None)
        w.fail('exception:' + v[0], f'find_or_add of the stored node @{want_node} (its own var, low, high) raised {v[1]} on a full manager, where no new node is needed', owner_tags(w, 'C18'))
    if abs(node_of(v)) != want_node:
        w.fail('wrong_result', f'find_or_add(var, low, high) of @{want_node} returned @{node_of(v)}', owner_tags(w, 'C18') + ['C02'])
    del v


def op_traverse(w, ins):
    """low/high/succ create temporary handles (C08, C18)."""
    m = ins.get('m', 0)
    a = w.pick(ins['a'], m)
    if a is None:
        return 'skip'
    g = w.mgrs[m]
    T = w.tt
    sn = w.snapshot(m)
    u = node_of(a.ref)
    if abs(u) == 1:
        if g.flavor == 'autoref':
            ok, v = call(w, lambda f: (f.var, f.low, f.high, f.level), a.ref)
            expect_ok(w, ok, v, 'C18', 'terminal attributes')
            if v[0] is not None or v[1] is not None or v[2] is not None:
                w.fail('wrong_result', f'terminal has var/low/high {v[:3]}', ['C18'])
        return
    if g.flavor == 'raw':
        ok, v = call(w, g.api.succ, a.ref)
        expect_ok(w, ok, v, 'C18', 'succ')
        lv, lo, hi = v
        ok, nm = call(w, g.api.var_at_level, lv)
        expect_ok(w, ok, nm, 'C18', 'var_at_level')
        k = w.name_idx.get(nm)
        dl, dh = w.den(m, lo), w.den(m, hi)
        if k is None or dl is None or dh is None:
            w.fail('wrong_result', 'succ returned references that are not stored', ['C18'])
        d = T.ite(T.var[k], dh, dl)
        if u < 0:
            d = T.neg(d)
        if d != a.tt:
            w.fail('wrong_result', 'Shannon re-composition from succ differs from the reference', ['C18'])
        _rebuild_when_full(w, g, lv, lo, hi, abs(u))
        return
    how = ins.get('how', 0)
    if how == 0:
        ok, v = call(w, lambda f: (f.var, f.low, f.high, f.negated, f.level), a.ref)
    else:
        ok, v = call(w, lambda f: (f.var, ) + tuple(g.api.succ(f)[1:]) + (f.negated, g.api.succ(f)[0]), a.ref)
    expect_ok(w, ok, v, 'C18', 'low/high')
    nm, lo, hi, neg, lv = v
    del v
    k = w.name_idx.get(nm)
    if k is None or not ref_ok(w, m, lo) or not ref_ok(w, m, hi):
        w.fail('wrong_result', f'var/low/high of @{u}: {nm!r}', ['C18'])
    d = T.ite(T.var[k], w.den(m, hi), w.den(m, lo))
    if neg:
        d = T.neg(d)
    if neg != (u < 0) or sn.order[lv] != nm:
        w.fail('wrong_result', f'negated/level of @{u} wrong', ['C18'])
    if d != a.tt:
        w.fail('wrong_result', 'Shannon re-composition from var/low/high/negated differs from the reference', ['C18'])
    _rebuild_when_full(w, g, nm, lo, hi, abs(u))
    keep = ins.get('keepmask', 0)
    # (the same object handed out twice is one handle, not two)
    if keep & 1 and not any(s_.ref is lo for s_ in w.slots):
        w.add_slot(m, lo, w.den(m, lo))
    if keep & 2 and not any(s_.ref is hi for s_ in w.slots):
        w.add_slot(m, hi, w.den(m, hi))
    del lo, hi
    w.touch()


# ---------------------------------------------------------------------------
# background: collection, reordering, configuration
# ---------------------------------------------------------------------------

def op_gc(w, ins):
    m = ins.get('m', 0)
    g = w.mgrs[m]
    pre = w.snapshot(m)
    led = w.ledger(m)
    if ins.get('roots') is not None and g.flavor == 'raw':
        # rooted collection: arbitrary stored nodes as roots
        nodes = sorted(pre.succ)
        roots = [nodes[i % len(nodes)] for i in ins['roots']] if nodes else []
        if ins.get('neg'):
            # references may be complemented
            roots = [(-u if (ins['neg'] >> j) & 1 and u != 1 else u) for j, u in enumerate(roots)]
        # what the documented cascade must free at least: start from the
        # given roots whose count is zero, follow edges while counts drop to zero
        cnt = dict(pre.refs)
        must = set()
        st = [abs(u) for u in roots if abs(u) != 1 and cnt.get(abs(u)) == 0]
        while st:
            u = st.pop()
            if u in must:
                continue
            must.add(u)
            i, lo, hi = pre.succ[u]
            for c in (abs(lo), hi):
                cnt[c] -= 1
                if cnt[c] == 0 and c != 1:
                    st.append(c)
        ok, v = call(w, g.raw.collect_garbage, roots)
        expect_ok(w, ok, v, 'C06', 'collect_garbage(roots)')
        w.stats['gc_rooted'] += 1
        left = must & set(w.snapshot(m).succ)
        if left:
            w.fail('rooted_gc_kept', f'collect_garbage({roots}) kept {sorted(left)[:6]}, which have no references and are below the given roots', ['C06'])
    else:
        ok, v = call(w, g.api.collect_garbage)
        expect_ok(w, ok, v, 'C06', 'collect_garbage()')
        w.stats['gc_full'] += 1
        if w.cur_info.get('final_in_op'):
            # a handle was finalized *inside* this collection, after the scan
            # for unused nodes: its node legitimately waits for the next
            # collection ("exactly the reachable nodes remain" is meant for
            # the references that existed when the collection ran)
            w.stats['gc_exact_not_judged_finalizer_inside'] += 1
        else:
            w.check_exact(m, ['C06'] + (['C08'] if g.flavor == 'autoref' else []))
    post = w.snapshot(m)
    # never frees anything reachable from an externally referenced node
    if len(post.succ) < len(pre.succ):
        w.stats['gc_freed'] += 1


def op_swap(w, ins):
    m = ins.get('m', 0)
    g = w.mgrs[m]
    sn = w.snapshot(m)
    n = len(sn.order or [])
    if n < 2:
        return 'skip'
    x = ins['x'] % (n - 1)
    y = x + 1
    if ins.get('flip'):
        x, y = y, x
    before = list(sn.order)
    if ins.get('by_name'):
        ax, ay = before[x], before[y]
    else:
        ax, ay = x, y
    ok, v = call(w, g.raw.swap, ax, ay)
    expect_ok(w, ok, v, 'C07', 'swap')
    after = w.snapshot(m).order
    want = list(before)
    want[x], want[y] = want[y], want[x]
    if after != want:
        w.fail('wrong_order', f'after swap({ax!r},{ay!r}): order {after}, expected {want}', owner_tags(w, 'C07'))
    w.stats['swap'] += 1
    if ins.get('x', 0) % 4 == 0:
        check_unique_table(w, m, owner_tags(w, 'C07'))


def _reorder_fn(w, g):
    D = seams.DD
    if g.flavor == 'raw':
        return lambda order=None: D.bdd.reorder(g.raw, order)
    return lambda order=None: g.api.reorder(order)


def op_reorder(w, ins):
    m = ins.get('m', 0)
    g = w.mgrs[m]
    sn = w.snapshot(m)
    n = len(sn.order or [])
    fn = _reorder_fn(w, g)
    if ins.get('restore'):
        # the caller goes back to an order it remembered earlier (what
        # `var_levels` returned then), after whatever happened in between
        rem = w.remembered.get(m)
        if rem is None or rem[0] is not g.raw:
            return 'skip'
        _, vl, mine = rem
        del w.remembered[m]
        if sorted(mine) != sorted(sn.order or []):
            return 'skip'           # variables were declared or removed since
        if dict(vl) != mine:
            w.fail('view_aliased', f'the mapping `var_levels` returned earlier has changed under the caller: {dict(vl)}, was {mine}', owner_tags(w, 'C07'))
        ok, v = call(w, fn, vl)
        expect_ok(w, ok, v, 'C07', 'reorder(remembered order)')
        after = w.snapshot(m).order
        target = sorted(mine, key=mine.get)
        if after != target:
            w.fail('wrong_order', f'reorder(remembered order): got {after}, requested {target}', owner_tags(w, 'C07'))
        w.stats['reorder_restore'] += 1
        return
    if ins.get('remember'):
        ok, vl = call(w, lambda: g.api.var_levels)
        expect_ok(w, ok, vl, 'C07', 'var_levels')
        w.remembered[m] = (g.raw, vl, dict(vl))
    if ins.get('perm') is None:
        if n < 2 and not w.cfg.get('sift_tiny'):
            return 'skip'
        # size before, measured after a collection of our own would change
        # the schedule; sifting itself collects first, so compare with the
        # canonical size of what is held (second model) instead
        ok, v = call(w, fn)
        expect_ok(w, ok, v, 'C07', 'reorder()')
        post = w.snapshot(m)
        w.stats['sift'] += 1
        # sifting ends with no more nodes than it started with
        if post.n > sn.n:
            w.fail('sift_grew', f'reorder(): {sn.n} nodes before, {post.n} after', owner_tags(w, 'C07'))
        return
    if n < 1:
        return 'skip'
    # target permutation given as a list of sort keys
    keys = ins['perm']
    idx = sorted(range(n), key=lambda i: (keys[i % len(keys)], i))
    target = [sn.order[i] for i in idx]
    order = {nm: l for l, nm in enumerate(target)}
    ok, v = call(w, fn, order)
    expect_ok(w, ok, v, 'C07', 'reorder(order)')
    after = w.snapshot(m).order
    if after != target:
        w.fail('wrong_order', f'reorder(order): got {after}, requested {target}', owner_tags(w, 'C07'))
    w.stats['reorder_to'] += 1


def op_pairs(w, ins):
    m = ins.get('m', 0)
    g = w.mgrs[m]
    sn = w.snapshot(m)
    n = len(sn.order or [])
    if n < 2:
        return 'skip'
    # disjoint pairs from a seeded shuffle (given as sort keys)
    keys = ins['perm']
    idx = sorted(range(n), key=lambda i: (keys[i % len(keys)], i))
    npairs = max(1, min(ins.get('npairs', 1), n // 2))
    pairs = {}
    for j in range(npairs):
        pairs[sn.order[idx[2 * j]]] = sn.order[idx[2 * j + 1]]
    if len(pairs) > 1 and not w.cfg.get('multi_pairs', True):
        pairs = dict([next(iter(pairs.items()))])
    D = seams.DD
    ok, v = call(w, D.bdd.reorder_to_pairs, g.raw, pairs)
    expect_ok(w, ok, v, 'C07', 'reorder_to_pairs')
    after = w.snapshot(m).order
    pos = {nm: i for i, nm in enumerate(after)}
    for x, y in pairs.items():
        if abs(pos[x] - pos[y]) != 1:
            w.fail('wrong_order', f'reorder_to_pairs({pairs}): {x},{y} not adjacent in {after}', owner_tags(w, 'C07'))
    w.stats['pairs'] += 1


def op_configure(w, ins):
    m = ins.get('m', 0)
    g = w.mgrs[m]
    on = bool(ins['on'])
    ok, v = call(w, g.api.configure, reordering=on)
    expect_ok(w, ok, v, 'C09', 'configure')
    ok, v = call(w, g.api.configure)
    expect_ok(w, ok, v, 'C09', 'configure')
    if v.get('reordering') is not on:
        w.fail('wrong_result', f'configure(reordering={on}) then configure() says {v}', ['C09'])


def op_knobs(w, ins):
    B = seams.DD.bdd
    B.REORDER_STARTS = ins['starts']
    B.REORDER_FACTOR = ins['factor']
    B.GROWTH_FACTOR = ins['growth']


def op_arm(w, ins):
    """S1: let the repository's own trigger fire after j more creations."""
    m = ins.get('m', 0)
    return arm_manager(w, w.mgrs[m], ins['j'])


def arm_manager(w, g, j):
    B = seams.DD.bdd
    if not g.api.configure()['reordering']:
        return 'skip'
    n = len(g.raw)
    f = B.REORDER_FACTOR
    x = (n + j) / f
    # make sure `len >= f * x` first holds at len == n + j
    while f * x > n + j:
        x -= abs(x) * 1e-12 + 1e-12
    if n + j - 1 >= 0 and f * x <= n + j - 1:
        return 'skip'
    g.raw._last_len = x
    w.stats['armed'] += 1


def op_finalize(w, ins):
    if w.finalize():
        w.stats['final_between'] += 1


def op_arm_final(w, ins):
    if ins.get('line'):
        w.pending_line = max(1, ins['k'])
    else:
        w.pending_final = max(1, ins['k'])


# ---------------------------------------------------------------------------
# table
# ---------------------------------------------------------------------------
OPS = {
    'var': (op_var, 'C02'),
    'const': (op_const, 'C02'),
    'apply': (op_apply, 'C01'),
    'ite': (op_ite, 'C01'),
    'fop': (op_fop, 'C01'),
    'eqcheck': (op_eqcheck, 'C02'),
    'probe': (op_probe, 'C01'),
    'nest': (op_nest, 'C01'),
    'quant': (op_quant, 'C03'),
    'let': (op_let, 'C04'),
    'cube': (op_cube, 'C01'),
    'find_or_add': (op_find_or_add, 'C02'),
    'drop': (op_drop, 'C06'),
    'dup': (op_dup, 'C06'),
    'traverse': (op_traverse, 'C18'),
    'gc': (op_gc, 'C06'),
    'swap': (op_swap, 'C07'),
    'reorder': (op_reorder, 'C07'),
    'pairs': (op_pairs, 'C07'),
    'configure': (op_configure, 'C09'),
    'knobs': (op_knobs, 'C09'),
    'arm': (op_arm, 'C09'),
    'finalize': (op_finalize, 'C08'),
    'arm_final': (op_arm_final, 'C08'),
}


def register(name, fn, prop):
    OPS[name] = (fn, prop)
