"""The simulated world: managers, user-side handles, ledger, invariants.

Verdicts are drawn only from state a user can observe through the API of
`dd.bdd.BDD` (`succ`, `ref`, `vars`, `var_at_level`, `level_of_var`, `len`,
iteration, membership, returned references, raised exceptions) — DESIGN §4.3.
"""
import collections
import gc
import os
import shutil
import tempfile

from ddsim import model, seams, simfs


class Stop(Exception):
    """Raised inside a run when a failure has been recorded."""


class Slot:
    __slots__ = ('m', 'ref', 'tt', 'client')

    def __init__(self, m, ref, tt, client=0):
        self.m = m          # manager index
        self.ref = ref      # int (raw flavour) or Function (autoref)
        self.tt = tt        # expected truth table
        self.client = client


class Mgr:
    def __init__(self, idx, flavor, api, raw):
        self.idx = idx
        self.flavor = flavor
        self.api = api      # what the user talks to
        self.raw = raw      # the dd.bdd.BDD underneath
        self.term_base = raw.ref(1)
        self.snap = None    # cached Snapshot (invalidated by `touch`)


class Snapshot:
    """Independent reading of a manager's stored diagram."""
    __slots__ = ('succ', 'refs', 'order', 'den', 'problems', 'n')


def node_of(ref):
    """Signed integer of a reference of either flavour."""
    if isinstance(ref, int):
        return ref
    return ref.node


class World:
    def __init__(self, cfg):
        self.cfg = cfg
        D = seams.DD
        self.nv = cfg['nv']
        self.tt = model.TT(self.nv)
        self.names = list(cfg['names'])
        self.name_idx = {n: i for i, n in enumerate(self.names)}
        self.flavor = cfg['flavor']
        self.mgrs = []
        self.slots = []
        self.limbo = collections.Counter()     # (m, absnode) -> parked handles
        self.fs = simfs.SimFS()
        self.failure = None
        self.stats = collections.Counter()
        self.step_no = -1
        self.cur = None          # instruction being executed
        self.cur_info = {}       # facts about the current step
        self.pending_final = None    # finalize limbo at creation request k
        self.pending_line = None     # ... or at the k-th line executed inside dd (settrace)
        self.mdd = None
        self.notes = []
        self.log = []            # event log (for determinism digests)
        self.orders_seen = set()
        self.remembered = {}     # m -> (manager, what var_levels returned, the caller's own copy)
        self.alloc_armed = False # a node limit is in force for the current instruction (F-alloc)
        self.copy_caches = {}    # (src, dst) -> memo dict passed to dd._copy.copy_bdd
        self.copy_cache_tt = {}  # (src, dst) -> {source node: function it denoted when memoized}
        n0 = cfg.get('declared', self.nv)
        for i in range(cfg.get('n_mgrs', 2)):
            self.new_manager(i, [self.names[k] for k in range(n0)]
                             if i == 0 else [],
                             ctor=cfg.get('ctor_perm') if i == 0 else None)
        self.real_dir = None
        if cfg.get('real_disk'):
            # real-disk slice: real open / os / shutil / shelve in a private
            # scratch directory (JSON dump and load use a *relative*
            # `__shelve__` directory), so that SimFS cannot flatter the code
            self.real_dir = tempfile.mkdtemp(prefix='ddsim_disk_')
            self.old_cwd = os.getcwd()
            os.chdir(self.real_dir)
        else:
            self.fs.bind()

    # ------------------------------------------------------------------ mgrs
    def new_manager(self, idx, declared, ctor=None):
        D = seams.DD
        if idx < len(self.mgrs):
            for key in [k for k in self.copy_caches if idx in k]:
                del self.copy_caches[key]
            # replacing a manager nobody holds: let parked handles of the old
            # one be finalized first, so that it is not collected together
            # with them (finalization order inside one collection is arbitrary)
            self.finalize()
        levels = None
        if ctor and declared:
            # the constructor's `levels` argument: explicit levels, given in
            # a dict whose insertion order differs from the level order
            import random as _rnd
            rr = _rnd.Random(ctor)
            lv = list(range(len(declared)))
            rr.shuffle(lv)
            items = list(zip(declared, lv))
            rr.shuffle(items)
            levels = dict(items)
        if self.flavor == 'autoref':
            api = D.autoref.BDD(levels)
            raw = api._bdd
        else:
            api = D.bdd.BDD(levels)
            raw = api
        m = Mgr(idx, self.flavor, api, raw)
        if levels is None:
            for nm in declared:
                api.add_var(nm)
        else:
            self.stats['ctor_with_levels'] += 1
        if idx < len(self.mgrs):
            self.mgrs[idx] = m
        else:
            self.mgrs.append(m)
        return m

    def close(self):
        if self.real_dir is not None:
            os.chdir(self.old_cwd)
            shutil.rmtree(self.real_dir, ignore_errors=True)
            self.real_dir = None
        else:
            self.fs.unbind()

    def get_file(self, fname):
        if self.real_dir is None:
            return self.fs.files.get(fname)
        try:
            with open(os.path.join(self.real_dir, fname), 'rb') as fd:
                return fd.read()
        except OSError:
            return None

    def put_file(self, fname, data):
        if self.real_dir is None:
            self.fs.files[fname] = data
        else:
            with open(os.path.join(self.real_dir, fname), 'wb') as fd:
                fd.write(data)

    # --------------------------------------------------------------- failure
    def fail(self, oracle, detail, props, op=None, cond=()):
        """Record the first failure of the run and stop it."""
        if self.failure is not None:
            raise Stop()
        info = self.cur_info
        conds = set(cond)
        if info.get('fired'):
            conds.add('reorder_fired_in_op')
        if info.get('final_in_op'):
            conds.add('finalizer_in_op')
        if info.get('dyn_on'):
            conds.add('dyn_on')
        if info.get('fault'):
            conds.add('fault:' + info['fault'])
        if info.get('raised'):
            conds.add('op_raised')
        conds.add('flavor:' + self.flavor)
        if oracle == 'wrong_result' and 'C02' not in props:
            # a wrong answer may come with a stored diagram that is no longer
            # reduced and ordered: that is C02's own clause, whoever owns the call
            try:
                self.touch()
                for g in self.mgrs:
                    bad = [d for k, d in self.snapshot(g.idx).problems if k in ('I-struct', 'I-canon')]
                    if bad:
                        props = list(props) + ['C02']
                        detail = f'{detail} [and M{g.idx} is no longer reduced and ordered: {bad[0]}]'
                        break
            except Exception:
                pass
        self.failure = dict(
            oracle=oracle,
            detail=str(detail)[:600],
            props=sorted(set(props)),
            op=op or (self.cur['op'] if self.cur else None),
            step=self.step_no,
            cond=sorted(conds))
        raise Stop()

    # ------------------------------------------------------------- handles
    def slots_of(self, m):
        return [s for s in self.slots if s.m == m]

    def pick(self, i, m=0):
        """The handle an operand index stands for: a pure function of the index
        and the state, total.  Half of the indices (bit 13) choose among the
        third of the handles whose functions depend on most variables --
        otherwise variables and constants, which are the bulk of any handle
        table, would be nearly all an operation ever sees."""
        c = self.slots_of(m)
        if not c:
            return None
        if (i >> 13) & 1 and len(c) > 2:
            sup = self.tt.support
            rich = sorted(range(len(c)), key=lambda j: (-len(sup(c[j].tt)), j))[:max(1, len(c) // 3)]
            return c[rich[i % len(rich)]]
        return c[i % len(c)]

    def add_slot(self, m, ref, tt, client=0):
        s = Slot(m, ref, tt, client)
        self.slots.append(s)
        return s

    def ledger(self, m):
        """External references the user holds, per node of manager m."""
        led = collections.Counter()
        for s in self.slots:
            if s.m == m:
                led[abs(node_of(s.ref))] += 1
        for (mm, u), c in self.limbo.items():
            if mm == m and c:
                led[u] += c
        # handles that the user keeps in a memo shared between copy calls
        F = seams.DD.autoref.Function
        seen = {id(s.ref) for s in self.slots if s.m == m}
        for (src, dst), cache in self.copy_caches.items():
            if dst == m:
                for v in cache.values():
                    if type(v) is F and v.node is not None and id(v) not in seen:
                        seen.add(id(v))
                        led[abs(v.node)] += 1
        return led

    def touch(self, m=None):
        for g in self.mgrs:
            if m is None or g.idx == m:
                g.snap = None

    # -------------------------------------------------------- finalizers S2
    def park(self, fn, m):
        """Deferred drop: the handle sits in a cycle until `finalize`."""
        u = abs(fn.node)
        cell = [fn]
        cell.append(cell)
        self.limbo[(m, u)] += 1
        self.stats['parked'] += 1
        del fn, cell

    def finalize(self):
        """Run the cyclic collector now (the only place it ever runs)."""
        n = sum(self.limbo.values())
        gc.collect()
        self.limbo.clear()
        if n:
            self.stats['finalized'] += n
        self.touch()
        return n

    # ---------------------------------------------------------- observation
    def snapshot(self, m):
        g = m if isinstance(m, Mgr) else self.mgrs[m]
        if g.snap is not None:
            return g.snap
        b = g.raw
        sn = Snapshot()
        problems = []
        succ = {}
        refs = {}
        try:
            nodes = list(b)
        except Exception as e:
            nodes = []
            problems.append(('I-struct', f'iteration failed: {e!r}'))
        for u in nodes:
            try:
                succ[u] = b.succ(u)
                refs[u] = b.ref(u)
            except Exception as e:
                problems.append(('I-struct', f'succ/ref of stored node {u}: {e!r}'))
        sn.succ = succ
        sn.refs = refs
        sn.n = len(nodes)
        try:
            if len(b) != len(nodes):
                problems.append(('I-struct', f'len(bdd)={len(b)} but {len(nodes)} nodes iterate'))
        except Exception as e:
            problems.append(('I-struct', f'len failed: {e!r}'))
        # order: four views, one bijection
        order = None
        try:
            vars_ = dict(b.vars)
            n = len(vars_)
            lv = sorted(vars_.values())
            if lv != list(range(n)):
                problems.append(('I-order', f'levels not 0..n-1: {vars_}'))
            else:
                order = [None] * n
                for nm, l in vars_.items():
                    order[l] = nm
                for l in range(n):
                    nm = b.var_at_level(l)
                    if nm != order[l]:
                        problems.append(('I-order', f'var_at_level({l})={nm!r} but vars says {order[l]!r}'))
                    if b.level_of_var(order[l]) != l:
                        problems.append(('I-order', f'level_of_var({order[l]!r})={b.level_of_var(order[l])} != {l}'))
                if dict(b.var_levels) != vars_:
                    problems.append(('I-order', 'var_levels differs from vars'))
                if g.flavor == 'autoref' and dict(g.api.vars) != vars_:
                    problems.append(('I-order', 'autoref vars differs from manager vars'))
                for nm in vars_:
                    if nm not in self.name_idx:
                        problems.append(('I-order', f'unknown variable name {nm!r}'))
                try:
                    b.var_at_level(n)
                    problems.append(('I-order', f'var_at_level({n}) did not refuse'))
                except Exception:
                    pass
        except Exception as e:
            problems.append(('I-order', f'order views failed: {e!r}'))
        sn.order = order
        # structure
        nvars = len(order) if order is not None else None
        uniq = {}
        terms = [u for u, t in succ.items() if t[1] is None or t[2] is None]
        if terms != [1]:
            problems.append(('I-struct', f'terminals: {terms}'))
        elif nvars is not None and succ[1] != (nvars, None, None):
            problems.append(('I-struct', f'terminal is {succ[1]} with {nvars} variables'))
        for u, (i, lo, hi) in succ.items():
            if u in terms:
                continue
            if not isinstance(u, int) or u < 2:
                problems.append(('I-struct', f'bad node id {u!r}'))
            if not (isinstance(lo, int) and isinstance(hi, int)) or not lo or not hi:
                problems.append(('I-struct', f'node {u} has children {lo!r},{hi!r}'))
                continue
            if hi < 0:
                problems.append(('I-struct', f'node {u}: complemented high edge {hi}'))
            if lo == hi:
                problems.append(('I-struct', f'node {u}: identical children {lo}'))
            if nvars is not None and not (0 <= i < nvars):
                problems.append(('I-struct', f'node {u}: level {i} outside 0..{nvars - 1}'))
            for c in (lo, hi):
                if abs(c) not in succ:
                    problems.append(('I-struct', f'node {u}: child {c} is not stored'))
                elif not (i < succ[abs(c)][0]):
                    problems.append(('I-struct', f'node {u} level {i}: child {c} at level {succ[abs(c)][0]}'))
            key = (i, lo, hi)
            if key in uniq:
                problems.append(('I-struct', f'nodes {uniq[key]} and {u} both are {key}'))
            uniq[key] = u
        # denotations (bottom-up, independent walk)
        den = {}
        if order is not None and not any(k == 'I-struct' for k, _ in problems):
            T = self.tt
            vt = []
            ok = True
            for nm in order:
                k = self.name_idx.get(nm)
                if k is None:
                    ok = False
                    break
                vt.append(T.var[k])
            if ok:
                den[1] = T.mask
                for u in sorted(succ, key=lambda x: -succ[x][0]):
                    if u == 1:
                        continue
                    i, lo, hi = succ[u]
                    dl = den[abs(lo)]
                    if lo < 0:
                        dl ^= T.mask
                    dh = den[hi]
                    v = vt[i]
                    den[u] = (v & dh) | ((T.mask ^ v) & dl)
                # canonicity: pairwise different, none constant / complement
                seen = {}
                for u, d in den.items():
                    key = d if (d >> (T.size - 1)) & 1 else d ^ T.mask
                    if key in seen:
                        problems.append(('I-canon', f'nodes {seen[key]} and {u} denote the same function (mod complement)'))
                    seen[key] = u
                    if u != 1 and not ((d >> (T.size - 1)) & 1):
                        problems.append(('I-canon', f'node {u} is false at the all-true assignment'))
        sn.den = den
        sn.problems = problems
        g.snap = sn
        if order is not None:
            self.orders_seen.add(tuple(order))
        return sn

    def den(self, m, ref):
        """Function denoted by reference `ref` of manager m (or None)."""
        sn = self.snapshot(m)
        u = node_of(ref)
        d = sn.den.get(abs(u))
        if d is None:
            return None
        return d ^ self.tt.mask if u < 0 else d

    def indegree(self, sn):
        ind = collections.Counter()
        for u, (i, lo, hi) in sn.succ.items():
            if lo is None:
                continue
            ind[abs(lo)] += 1
            ind[abs(hi)] += 1
        return ind

    # ------------------------------------------------------------ invariants
    def check_invariants(self, props_struct, props_count, props_den,
                         where='after step'):
        """I-struct/I-order/I-canon, I-count, I-den on every manager.

        `props_*`: property ids a failure of that family is tagged with.
        """
        for g in self.mgrs:
            sn = self.snapshot(g.idx)
            for kind, detail in sn.problems:
                tags = set(props_struct) | {'C02'}
                if kind == 'I-order' or 'terminal' in detail:
                    tags |= {'C14'}     # the order / the place of the terminal
                self.fail(kind, f'M{g.idx} {where}: {detail}', tags)
            # I-den on handles
            for s in self.slots:
                if s.m != g.idx:
                    continue
                u = node_of(s.ref)
                if u is None:
                    self.fail('I-den', f'M{g.idx} {where}: live handle lost its node', props_den)
                d = self.den(g.idx, s.ref)
                if d is None:
                    self.fail('I-den', f'M{g.idx} {where}: live handle @{u} points to a node that is not stored', props_den)
                if d != s.tt:
                    self.fail('I-den', f'M{g.idx} {where}: live handle @{u} denotes another function than when it was created', props_den)
            # I-count
            ind = self.indegree(sn)
            led = self.ledger(g.idx)
            for u, r in sn.refs.items():
                want = ind[u] + led[u] + (g.term_base if u == 1 else 0)
                if r != want:
                    if g.flavor == 'autoref':
                        c = self.census(g)
                        extra = c.get(u, 0) - led[u]
                        if extra and r == ind[u] + c.get(u, 0) + (g.term_base if u == 1 else 0):
                            # a live Function the handle table does not know:
                            # kept alive by dd itself (e.g. memoized inside
                            # another Function) or by a stray harness reference?
                            if self.kept_alive_by_dd(g, u):
                                # the count equals in-edges + live Functions,
                                # which is what the property states
                                self.stats['function_kept_alive_by_dd'] += 1
                                continue
                            who = self.census_referrers(g, u)
                            raise seams.HarnessError(
                                f'stray Function for node {u} (count {r}, ledger {led[u]}, census {c.get(u, 0)}): {who}')
                    self.fail('I-count', f'M{g.idx} {where}: node {u} has count {r}, expected in-edges {ind[u]} + external {led[u]}'
                              + (f' + manager {g.term_base}' if u == 1 else ''), props_count)

    def census(self, g):
        """Live `Function` objects per node (autoref), from the collector."""
        F = seams.DD.autoref.Function
        c = collections.Counter()
        for o in gc.get_objects():
            if type(o) is F and o.__dict__.get('manager') is g.raw:
                n = o.__dict__.get('node')
                if n is not None:
                    c[abs(n)] += 1
        return c

    def kept_alive_by_dd(self, g, u):
        """Is every unknown live Function on node u referenced from the
        attribute dict of another Function (i.e. held by dd, not by us)?"""
        F = seams.DD.autoref.Function
        known = {id(s.ref) for s in self.slots}
        funcs = [o for o in gc.get_objects() if type(o) is F]
        dicts = {id(f.__dict__) for f in funcs}
        unknown = [o for o in funcs if o.__dict__.get('manager') is g.raw
                   and o.__dict__.get('node') is not None
                   and abs(o.__dict__['node']) == u and id(o) not in known]
        if not unknown:
            return False
        held = 0
        for o in unknown:
            refs = gc.get_referrers(o)
            if any(isinstance(r, dict) and id(r) in dicts and r is not o.__dict__ for r in refs):
                held += 1
            elif any(isinstance(r, list) and any(x is r for x in r) for r in refs):
                pass            # parked by the simulator (a self-referential cell): in the ledger
            else:
                return False
        return held > 0

    def census_referrers(self, g, u):
        F = seams.DD.autoref.Function
        out = []
        known = {id(s.ref) for s in self.slots}
        for o in gc.get_objects():
            if type(o) is F and o.__dict__.get('manager') is g.raw \
                    and o.__dict__.get('node') is not None \
                    and abs(o.__dict__['node']) == u and id(o) not in known:
                for r in gc.get_referrers(o):
                    out.append(type(r).__name__ + ':' + repr(r)[:80])
        return out[:6]

    def check_exact(self, m, props):
        """I-exact: right after a full collection, stored = reachable from
        externally referenced nodes, plus the terminal."""
        g = self.mgrs[m]
        sn = self.snapshot(m)
        led = self.ledger(m)
        reach = {1}
        stack = [u for u, c in led.items() if c > 0]
        while stack:
            u = stack.pop()
            if u in reach or u not in sn.succ:
                continue
            reach.add(u)
            i, lo, hi = sn.succ[u]
            if lo is not None:
                stack.append(abs(lo))
                stack.append(abs(hi))
        stored = set(sn.succ)
        if stored != reach:
            extra = sorted(stored - reach)[:5]
            missing = sorted(reach - stored)[:5]
            self.fail('I-exact', f'M{m} after full collection: unreachable nodes kept {extra}, reachable nodes missing {missing}', props)

    def check_quiet(self, props):
        ev = seams.QUIET.drain()
        for e in ev:
            if e[0] == 'warning' and e[1] in ('DeprecationWarning', 'PendingDeprecationWarning', 'ResourceWarning'):
                continue
            if e[0] == 'unraisable' and e[1] == 'AttributeError' and "has no attribute 'node'" in e[2]:
                # a Function whose constructor refused its argument has no
                # attributes when it is finalized: noise on stderr, no state
                # is touched, and no listed property speaks of it
                self.stats['noise_del_of_refused_function'] += 1
                continue
            self.fail('I-quiet', f'{e}', props)

    def canonical_size(self, m):
        """Second model: size of the shared diagram of all held functions."""
        sn = self.snapshot(m)
        order = [self.name_idx[nm] for nm in sn.order]
        roots = [s.tt for s in self.slots if s.m == m]
        return self.tt.canonical_size(roots, order)
