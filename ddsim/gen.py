"""Seeded generation of configurations and instructions (swarm style).

Generation is lazy — it may look at the world so that most instructions are
valid — but what it emits is a fully resolved, total instruction.
"""
from ddsim import ops, prng

NAME_POOL = [
    'mode', 'ids', 'add', 'ver', 'nvars',      # header words of the DDDMP format are ordinary names
    'x', 'y', 'z', 'w', 'a', 'b', 'c', 'd', 'p', 'q', 'r', 's', 't', 'u', 'v',
    "x'", "y'", "z'", "a'", "b'", "p'", "q'", 'x0', 'x1', 'x2', 'x3', 'y0',
    'y1', 'y2', 'a_1', 'a_2', 'b_1', 'b_2', '_x', '_y', '_tmp', 'X', 'Y', 'Z',
    'A', 'B', 'Foo', 'bar', 'baz', 'qux', 'req', 'ack', 'grant', "req'",
    "ack'", "grant'", 'in0', 'in1', 'out0', 'out1', 'st', "st'", 'clk', 'rst',
    'en', 'sel', 'n1', 'n2', 'n3', 'n10', 'n11', 'k9', 'm_', 'm__', 'aa',
    'ab', 'ba', 'bb', 'abc', 'xyz', 'lo', 'hi', 'T1', 'F1', 'It', 'Ite',
    'iTe', 'true_', 'false_', 'TRUEx', 'xFALSE', 'e', 'E', 'S', 'A_', 'f',
    'g', 'h', 'i', 'j', 'k', 'l', 'm', 'n', 'o', "o'", "i'", "j'", "k''",
    "x''", 'var', 'level', 'node', 'bdd', 'x_y', 'x_y_z', 'a0b', 'a1b1',
    'Q', 'R', 'q0', 'q1', "q0'", "q1'", 'pc', "pc'", 'pc0', 'pc1',
]
# documented identifiers that contain a dot (doc.md: `symbol == start | NUMERAL | DOT | PRIME`)
DOTTED_POOL = ['a.b', 'x.y', 'mod.sig', 'u.v.w', "p.q'", 'n.1', 'top.en', '_r.s']
# names that the lexer reserves and therefore are not usable as variables
_RESERVED = {'ite', 'False', 'True', 'FALSE', 'TRUE', 'false', 'true'}
NAME_POOL = [n for n in NAME_POOL if n not in _RESERVED]


# ---------------------------------------------------------------------------
# op weights per profile
# ---------------------------------------------------------------------------
BASE = dict(
    var=6, const=1, apply=10, ite=4, fop=0, eqcheck=2, quant=3, let=3,
    cube=2, find_or_add=2, drop=6, dup=2, traverse=0,
    gc=3, swap=3, reorder=1, pairs=1, configure=0, knobs=0, arm=0,
    finalize=0, arm_final=0, redo=3, probe=2, mk_tt=5)


def _w(**kw):
    d = dict(BASE)
    d.update(kw)
    return d


# ---------------------------------------------------------------------------
# instructions
# ---------------------------------------------------------------------------
def _ri(r, n=1 << 16):
    return r.randrange(n)


def gen_var(w, r, cfg):
    dec = [w.name_idx[nm] for nm in w.mgrs[0].raw.vars if nm in w.name_idx]
    if dec and r.random() < 0.9:
        return dict(op='var', k=r.choice(sorted(dec)))
    return dict(op='var', k=_ri(r, w.nv))


def gen_const(w, r, cfg):
    return dict(op='const', v=r.randrange(2))


def gen_apply(w, r, cfg):
    x = r.random()
    keep = r.random() < cfg['keep_rate']
    if x < 0.08:
        return dict(op='apply', sym=r.choice(ops.UNARY), a=_ri(r), keep=keep)
    if x < 0.16:
        return dict(op='apply', sym='ite', a=_ri(r), b=_ri(r), c=_ri(r), keep=keep)
    return dict(op='apply', sym=r.choice(ops.ALL_BINARY_SYMS), a=_ri(r), b=_ri(r), keep=keep)


def gen_ite(w, r, cfg):
    return dict(op='ite', a=_ri(r), b=_ri(r), c=_ri(r), keep=r.random() < cfg['keep_rate'])


def gen_fop(w, r, cfg):
    return dict(op='fop', k=r.choice(['invert', 'and', 'or', 'implies', 'equiv',
                                      'le', 'lt', 'eq', 'ne', 'iand', 'ior']), a=_ri(r), b=_ri(r))


def gen_eqcheck(w, r, cfg):
    return dict(op='eqcheck', a=_ri(r), b=_ri(r))


def gen_quant(w, r, cfg):
    how = r.choice(['quantify', 'quantify', 'named', 'named', 'apply', 'fmeth'])
    x = r.random()
    if x < 0.1:
        vs = 0
    elif x < 0.2:
        vs = (1 << w.nv) - 1
    else:
        vs = r.randrange(1 << w.nv)
    return dict(op='quant', how=how, a=_ri(r), b=_ri(r), vars=vs,
                forall=r.randrange(2), cont=r.randrange(8), alias=r.randrange(2),
                kwarg=r.randrange(2), keep=r.random() < cfg['keep_rate'])


def gen_let(w, r, cfg):
    kind = r.choice(['bool', 'fn', 'name'])
    if r.random() < 0.03:
        return dict(op='let', kind=kind, how='let', a=_ri(r), pairs=[], empty_ok=1, keep=False)
    n = r.choice([1, 1, 2, 2, 3, w.nv])
    pairs = []
    for _ in range(n):
        k = _ri(r, w.nv)
        if kind == 'bool':
            v = r.randrange(2)
        elif kind == 'fn':
            v = _ri(r)
        else:
            v = _ri(r, w.nv)
        pairs.append([k, v])
    if kind == 'name' and len(pairs) >= 2 and r.random() < 0.3:
        # a swap x->y, y->x
        pairs[1] = [pairs[0][1], pairs[0][0]]
    how = r.choice(['let', 'let', 'direct', 'fmeth'])
    if kind == 'name' and how == 'direct' and r.random() < 0.5:
        how = 'module'
    return dict(op='let', kind=kind, how=how, a=_ri(r), pairs=pairs,
                keep=r.random() < cfg['keep_rate'],
                cm=[r.choice([0, 0, 0, 1, 2]) for _ in pairs] if (kind == 'fn' and r.random() < 0.4) else None,
                reuse=_ri(r) if r.random() < 0.3 else None,
                more_single=([[_ri(r), _ri(r, w.nv), _ri(r)] for _ in range(4)] if kind == 'fn' else []))


def gen_cube(w, r, cfg):
    n = r.randint(0, w.nv)
    return dict(op='cube', pairs=[[_ri(r, w.nv), r.randrange(2)] for _ in range(n)],
                iterable=r.random() < 0.3, keep=r.random() < cfg['keep_rate'])


def gen_find_or_add(w, r, cfg):
    # look at the world: choose children below the chosen level
    sn = w.snapshot(0)
    n = len(sn.order or [])
    if not n or not w.slots_of(0):
        return dict(op='find_or_add', level=_ri(r, 16), lo=_ri(r), hi=_ri(r))
    lv = r.randrange(n)
    c = w.slots_of(0)
    good = [i for i, s in enumerate(c)
            if sn.succ.get(abs(ops.node_of(s.ref)), (0,))[0] > lv]
    if not good:
        return dict(op='find_or_add', level=lv, lo=_ri(r), hi=_ri(r))
    return dict(op='find_or_add', level=lv, lo=r.choice(good), hi=r.choice(good),
                keep=r.random() < cfg['keep_rate'])


def gen_drop(w, r, cfg):
    mode = 'now'
    if cfg['final_mode'] == 'late':
        mode = 'late'
    elif cfg['final_mode'] == 'mixed':
        mode = r.choice(['now', 'late'])
    if cfg.get('explicit_release') and r.random() < cfg['explicit_release']:
        mode = r.choice(['explicit', 'explicit_late'])
    return dict(op='drop', a=_ri(r), mode=mode)


def gen_dup(w, r, cfg):
    return dict(op='dup', a=_ri(r), how=r.randrange(4 if cfg.get('copy_copy') else 3))


def gen_traverse(w, r, cfg):
    return dict(op='traverse', a=_ri(r), how=r.randrange(2), keepmask=r.choice([0, 0, 1, 2, 3]))


def gen_gc(w, r, cfg):
    if w.flavor == 'raw' and r.random() < 0.35:
        return dict(op='gc', roots=[_ri(r) for _ in range(r.randint(0, 4))], neg=r.randrange(16) if r.random() < 0.5 else 0)
    return dict(op='gc')


def gen_swap(w, r, cfg):
    return dict(op='swap', x=_ri(r, 64), by_name=r.randrange(2), flip=r.randrange(2))


def gen_reorder(w, r, cfg):
    x = r.random()
    if x < 0.45:
        return dict(op='reorder', perm=None, remember=int(r.random() < 0.3))
    if x < 0.6:
        return dict(op='reorder', restore=1, perm=None)
    return dict(op='reorder', perm=[_ri(r, 1000) for _ in range(w.nv)], remember=int(r.random() < 0.3))


def gen_pairs(w, r, cfg):
    return dict(op='pairs', perm=[_ri(r, 1000) for _ in range(w.nv)], npairs=r.randint(1, 3))


def gen_configure(w, r, cfg):
    return dict(op='configure', on=1 if r.random() < 0.7 else 0)


def gen_knobs(w, r, cfg):
    return dict(op='knobs', starts=r.choice([1, 2, 5, 20, 100]),
                factor=r.choice([1.01, 1.25, 1.5, 2, 3]),
                growth=r.choice([1, 1.5, 2, 3]))


def gen_arm(w, r, cfg):
    return dict(op='arm', j=r.choice([0, 0, 1, 1, 2, 3, 4, 6, 9, 14]))


def gen_finalize(w, r, cfg):
    return dict(op='finalize')


def gen_arm_final(w, r, cfg):
    if cfg.get('line_mode') and r.random() < 0.6:
        return dict(op='arm_final', line=1, k=r.choice([1, 2, 3, 5, 8, 13, 21, 34, 55, 89, 144, 233, 377]))
    return dict(op='arm_final', k=r.choice([1, 1, 2, 3, 5, 8, 13, 21]))


NEST_KINDS = ['apply', 'apply_r', 'apply_both', 'not', 'ite', 'ite_else', 'op', 'quant', 'let', 'let_fn', 'expr_tmp']


def gen_nest(w, r, cfg):
    return dict(op='nest', kind=r.choice(NEST_KINDS), a=_ri(r), b=_ri(r), c=_ri(r),
                sym1=r.choice(ops.ALL_BINARY_SYMS), sym2=r.choice(ops.ALL_BINARY_SYMS),
                neg=r.randrange(2), forall=r.randrange(2), vars=r.randrange(1, 1 << w.nv),
                pairs=[[_ri(r, w.nv), r.randrange(2)] for _ in range(r.randint(1, 2))],
                keep=r.random() < cfg['keep_rate'])


def gen_probe(w, r, cfg):
    want = cfg.get('probe_second') or ['apply']
    k = r.choice(want)
    if k == 'quant':
        second = dict(k='quant', vars=r.randrange(1, 1 << w.nv), forall=r.randrange(2))
    elif k == 'let':
        second = dict(k='let', pairs=[[_ri(r, w.nv), r.randrange(2)] for _ in range(r.randint(1, 2))])
    else:
        second = dict(k='apply')
    return dict(op='probe', a=_ri(r), b=_ri(r), c=_ri(r), sym1=r.choice(ops.ALL_BINARY_SYMS),
                sym2=r.choice(ops.ALL_BINARY_SYMS), rooted=r.randrange(2), second=second,
                keep_first=int(r.random() < 0.6),
                tries=[[r.choice(ops.ALL_BINARY_SYMS), _ri(r), _ri(r)] for _ in range(4)])


def gen_redo(w, r, cfg):
    """Re-issue an earlier computation (same operand slots): after a
    collection or a swap in between, a remembered answer would be stale."""
    h = getattr(w, 'history', None)
    if not h:
        return gen_apply(w, r, cfg)
    ins = dict(h[-1 - min(int(r.random() ** 2 * len(h)), len(h) - 1)])
    ins['keep'] = r.random() < 0.3
    return ins


GEN = dict(
    var=gen_var, const=gen_const, apply=gen_apply, ite=gen_ite, fop=gen_fop,
    eqcheck=gen_eqcheck, quant=gen_quant, let=gen_let, cube=gen_cube,
    find_or_add=gen_find_or_add, drop=gen_drop, dup=gen_dup,
    traverse=gen_traverse, gc=gen_gc, swap=gen_swap, reorder=gen_reorder,
    pairs=gen_pairs, configure=gen_configure, knobs=gen_knobs, arm=gen_arm,
    finalize=gen_finalize, arm_final=gen_arm_final, redo=gen_redo, probe=gen_probe, nest=gen_nest)


def register(name, fn):
    GEN[name] = fn


def prologue(w, cfg, r):
    """Instructions every run starts with."""
    out = []
    if cfg.get('knobs'):
        out.append(dict(op='knobs', **cfg['knobs']))
    if cfg.get('dyn'):
        out.append(dict(op='configure', on=1))
    for k in range(min(cfg['nv'], 3)):
        out.append(dict(op='var', k=k))
    if cfg.get('big_start'):
        out.append(dict(op='inflate', seed=cfg['big_start'], target=300))
    return out


M1_OK = {'var', 'const', 'apply', 'ite', 'fop', 'eqcheck', 'quant', 'let', 'cube',
         'gc', 'swap', 'reorder', 'pairs', 'declare', 'add_expr', 'to_expr',
         'support', 'count', 'pick', 'sizes', 'traverse', 'configure', 'arm', 'mk_tt', 'mk_struct'}


def next_instruction(w, r, cfg):
    weights = cfg['weights']
    table = [(k, v) for k, v in weights.items() if v > 0 and k in GEN]
    # pressure valve: too many handles -> drop; none -> create
    n = len(w.slots)
    if n == 0:
        # nothing to work with: declare a variable if there is none, else
        # take a handle on a declared one (generation may look at the world)
        dec = [w.name_idx[nm] for nm in w.mgrs[0].raw.vars if nm in w.name_idx]
        if not dec:
            return dict(op='declare', k=_ri(r, w.nv), how=r.randrange(2), m=0)
        return dict(op='var', k=r.choice(sorted(dec)))
    if n > cfg['max_slots'] and r.random() < 0.7:
        return gen_drop(w, r, cfg)
    if cfg.get('m1_rate') and len(w.mgrs) > 1 and r.random() < cfg['m1_rate']:
        # work in the second manager: it needs variables and handles first
        nd = len(w.mgrs[1].raw.vars)
        if nd == 0 and r.random() < 0.3:
            # a manager without any variable still has the two constants
            return dict(op='const', v=r.randrange(2), m=1)
        if nd == 0 or (nd < w.nv and r.random() < 0.25):
            return dict(op='declare', k=_ri(r, w.nv), how=r.randrange(2), m=1)
        if not w.slots_of(1) or r.random() < 0.25:
            return dict(op='var', k=_ri(r, w.nv), m=1)
        k = prng.weighted(r, table)
        ins = GEN[k](w, r, cfg)
        if ins['op'] in M1_OK and 'm' not in ins:
            ins['m'] = 1
        return ins
    k = prng.weighted(r, table)
    ins = GEN[k](w, r, cfg)
    # (with a focus, only that instruction runs under a limit: faults on the
    # instructions that build the operands would starve the workload)
    if cfg.get('alloc_rate') and ins['op'] in ALLOC_OPS and \
            r.random() < (cfg['alloc_rate'] if not cfg.get('alloc_focus') else
                          (0.35 if ins['op'] == cfg['alloc_focus'] else 0.0)):
        # F-alloc: the manager is full after about this many more nodes
        ins['alloc'] = r.choice([0, 0, 1, 1, 2, 3, 5, 8])
    return ins


ALLOC_OPS = {'apply', 'ite', 'fop', 'quant', 'let', 'cube', 'find_or_add', 'add_expr', 'var', 'copy', 'image'}
SWEEP_FINAL_OPS = ['apply', 'ite', 'quant', 'let', 'cube', 'var', 'add_expr', 'copy', 'image', 'find_or_add',
                   'fop', 'nest', 'reorder', 'swap', 'pairs', 'to_expr', 'load', 'probe']


def sweep_tail(w, r, cfg):
    """Final instructions of a position-sweep run (same prefix in the whole
    group; only the position differs)."""
    sw = cfg.get('sweep')
    if not sw:
        return
    from ddsim import profiles
    i = sw['index']
    if sw['kind'] == 'arm':
        k = r.choice([x for x in SWEEP_FINAL_OPS if x in GEN])
        final = GEN[k](w, r, cfg)
        final['keep'] = True
        yield dict(op='configure', on=1)
        yield dict(op='arm', j=i)
        yield final
        yield dict(op='apply', sym='and', a=_ri(r), b=_ri(r), keep=False)
    elif sw['kind'] == 'final':
        k = r.choice(['apply', 'fop', 'quant', 'let', 'reorder', 'reorder', 'add_expr', 'traverse', 'gc', 'copy', 'nest'])
        final = GEN[k](w, r, cfg) if k in GEN else gen_apply(w, r, cfg)
        # park a few handles, then let the finalizers run at point i
        for _ in range(3):
            yield dict(op='drop', a=_ri(r), mode='late')
        if final.get('op') == 'reorder':
            final['perm'] = None
        yield dict(op='arm_final', k=1 + i)
        yield final
        yield dict(op='finalize')
    elif sw['kind'] == 'disk':
        pos = profiles.SWEEP_POS[i]
        what = r.choice(['dump_write', 'load_read', 'load_read', 'dump_shelf'])
        fmt = r.choice(['pickle', 'json']) if w.flavor == 'autoref' else 'pickle'
        roots = [_ri(r) for _ in range(r.randint(1, 3))]
        asd = r.randrange(2)
        tgt = r.choice([0, 1, 2])
        lv = r.randrange(2)
        if what == 'load_read':
            yield dict(op='dump', m=0, fmt=fmt, roots=roots, as_dict=asd, file=7, filetype=0, fault=None)
            yield dict(op='load', file=_ri(r), target=tgt, levels=lv, load_order=0, positional=0, direct=0,
                       fault=dict(kind='read', pos=pos, err=0), only='f7')
        elif what == 'dump_shelf' and fmt == 'json':
            yield dict(op='dump', m=0, fmt='json', roots=roots, as_dict=asd, file=7, filetype=0,
                       fault=dict(kind='shelf', pos=i, err=0))
            yield dict(op='load', file=_ri(r), target=tgt, levels=lv, load_order=0, positional=0, direct=0, fault=None, only='f7')
        else:
            yield dict(op='dump', m=0, fmt=fmt, roots=roots, as_dict=asd, file=7, filetype=0,
                       fault=dict(kind='write', pos=pos, err=0))
            yield dict(op='load', file=_ri(r), target=tgt, levels=lv, load_order=0, positional=0, direct=0, fault=None, only='f7')
        yield dict(op='gc')
        yield dict(op='apply', sym='or', a=_ri(r), b=_ri(r), keep=False)
