"""Worker process: executes one batch of runs under one PYTHONHASHSEED.

Invoked by the master as
    python -X faulthandler -m ddsim.worker <prop> <verif_seed> <start> <count> <tier> <outdir>
Prints one JSON line per run on stdout.  Never decides exit codes of the
check; it reports, the master judges.
"""
import faulthandler
import json
import os
import signal
import sys
import time


def _alarm(signum, frame):
    from ddsim import runner, seams
    src = os.path.join(os.path.abspath(seams.dd_src()), 'dd') + os.sep
    f = frame
    in_dd = False
    where = ''
    depth = 0
    while f is not None and depth < 400:
        fn = f.f_code.co_filename
        if fn.startswith(src):
            in_dd = True
            where = f'{os.path.basename(fn)}:{f.f_lineno} {f.f_code.co_name}'
            break
        if fn.endswith(os.sep + 'ddsim' + os.sep + 'ops.py') and f.f_code.co_name == 'call':
            break
        f = f.f_back
        depth += 1
    if not where and frame is not None:
        where = f'{os.path.basename(frame.f_code.co_filename)}:{frame.f_lineno} {frame.f_code.co_name}'
    raise runner.RunTimeout(in_dd, where)


def main(argv):
    prop, vseed, start, count, tier, outdir = argv[:6]
    vseed, start, count = int(vseed), int(start), int(count)
    if os.environ.get('PYTHONHASHSEED') in (None, '', 'random'):
        print(json.dumps(dict(harness_error='PYTHONHASHSEED not fixed')))
        return 2
    from ddsim import gen, profiles, prng, runner, seams  # noqa: F401
    seams.setup_process()
    faulthandler.enable()
    signal.signal(signal.SIGALRM, _alarm)
    per_run = float(os.environ.get('DDSIM_RUN_LIMIT', '120'))
    hs = int(os.environ['PYTHONHASHSEED'])
    out = sys.stdout
    shrunk_kinds = {}
    max_shrinks = int(os.environ.get('DDSIM_SHRINKS_PER_BATCH', '3'))
    for idx in range(start, start + count):
        seed = prng.mix(vseed, prop, idx)
        cfg = profiles.make_cfg(prop, seed, tier, idx, vseed)
        t0 = time.perf_counter()
        signal.setitimer(signal.ITIMER_REAL, per_run)
        try:
            res = runner.run(prop, cfg, seed)
        except Exception as e:      # a bug of the harness, not of dd
            import traceback
            res = dict(prop=prop, seed=seed, failure=None,
                       harness_error='harness exception: ' + ''.join(traceback.format_exception(e))[-900:],
                       steps=0, stats={}, fs={}, digest='', ldigest='', sig='', nontrivial=False, orders=0,
                       trace=[], cfg=cfg)
        except runner.RunTimeout:
            res = dict(prop=prop, seed=seed, failure=None, harness_error='run exceeded %.0fs wall limit' % per_run,
                       steps=0, stats={}, fs={}, digest='', ldigest='', sig='', nontrivial=False, orders=0,
                       trace=[], cfg=cfg)
        finally:
            signal.setitimer(signal.ITIMER_REAL, 0)
        res['idx'] = idx
        res['hashseed'] = hs
        f = res['failure']
        if f is not None and not res['harness_error']:
            # minimise (deterministic in-process re-executions, same hash seed)
            signal.setitimer(signal.ITIMER_REAL, 240)
            kind = (f['op'], f['oracle'], tuple(f['props']))
            budget = int(os.environ.get('DDSIM_SHRINK', '300'))
            # many runs failing the same way: minimise the first few only
            if shrunk_kinds.get(kind, 0) >= 1 or len(shrunk_kinds) >= max_shrinks:
                budget = 0
            shrunk_kinds[kind] = shrunk_kinds.get(kind, 0) + 1
            try:
                if budget:
                    trace, f2, tries = runner.shrink(prop, cfg, seed, res['trace'], f, budget=budget)
                else:
                    trace, f2, tries = res['trace'], f, 0
            except runner.RunTimeout:
                trace, f2, tries = res['trace'], f, -1
            finally:
                signal.setitimer(signal.ITIMER_REAL, 0)
            rp = dict(property=prop, verif_seed=vseed, run_index=idx, pythonhashseed=hs,
                      tier=tier, cfg=cfg, trace=trace, failure=f2,
                      original_steps=len(res['trace']), shrink_tries=tries,
                      dd_src=seams.dd_src())
            path = os.path.join(outdir, f'{prop}-s{vseed}-r{idx}.json')
            with open(path, 'w') as fd:
                json.dump(rp, fd, indent=1, sort_keys=True)
            res['failure'] = f2
            res['replay'] = path
            res['min_steps'] = len(trace)
        res['wall'] = time.perf_counter() - t0
        keep_trace = (idx % 97 == 0)
        if not keep_trace:
            res.pop('trace', None)
            res.pop('cfg', None)
        out.write(json.dumps(res, sort_keys=True) + '\n')
        out.flush()
    return 0


if __name__ == '__main__':
    sys.exit(main(sys.argv[1:]))
