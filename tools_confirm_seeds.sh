#!/bin/sh
# Final confirmation the way the brief prescribes: apply each seeded patch to
# /repo itself, run the check(s) that are supposed to catch it, undo the patch.
# Nothing may be running against /repo meanwhile.  usage: tools_confirm_seeds.sh [name-glob]
cd /verif || exit 2
PAT="${1:-*}"
if [ -n "$(git -C /repo status --porcelain -- dd)" ]; then echo "/repo/dd is not clean"; exit 2; fi
for D in seeded/$PAT; do
  N=$(basename "$D")
  PROPS=$(/venv/bin/python -c "import json,sys; print(' '.join(json.load(open('$D/meta.json'))['caught_by']))")
  if [ -z "$PROPS" ]; then echo "$N -> skipped (no check listed: see meta.json status)"; continue; fi
  git -C /repo apply "/verif/$D/patch.diff" || { echo "$N: patch does not apply"; continue; }
  RES=""
  for P in $PROPS; do
    OUT=$(./check "$P" --runs "${RUNS:-9600}" 2>&1)
    RC=$?
    N_V=$(echo "$OUT" | grep -c "^VIOLATION property=$P ")
    RES="$RES $P:exit=$RC,violation_lines=$N_V"
  done
  git -C /repo checkout -- dd
  echo "$N ->$RES"
done
git -C /repo status --porcelain -- dd
