import json, subprocess, sys
items = json.load(open(sys.argv[1]))
for wt, name, text, cb in items:
    subprocess.run(['/verif/tools_keep_seed.sh', wt, name, text], stdout=subprocess.DEVNULL, check=True)
    p = f'/verif/seeded/{name}/meta.json'
    m = json.load(open(p)); m['caught_by'] = cb; json.dump(m, open(p, 'w'), indent=1)
    print('kept', name)
