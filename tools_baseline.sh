#!/bin/sh
# Runs the repository's pinned suite and compares with BASELINE.json stable_pass.
# usage: tools_baseline.sh [repo_dir]
REPO="${1:-/repo}"
OUT="$(mktemp /tmp/junit.XXXXXX.xml)"
cd "$REPO" && /venv/bin/python -m pytest -ra -q -p no:cacheprovider --timeout=900 --continue-on-collection-errors --junitxml="$OUT" >/dev/null 2>&1
/venv/bin/python - "$OUT" <<'PY'
import json, sys, xml.etree.ElementTree as ET
base = set(json.load(open('/root/.vp/BASELINE.json'))['stable_pass'])
t = ET.parse(sys.argv[1])
passed = set()
for tc in t.iter('testcase'):
    if any(ch.tag in ('failure', 'error', 'skipped') for ch in tc):
        continue
    cn = tc.get('classname'); nm = tc.get('name')
    passed.add(f'{cn}::{nm}')
missing = sorted(base - passed)
print(f'baseline {len(base)} passed-now {len(passed & base)} missing {len(missing)}')
for m in missing: print('  MISSING', m)
sys.exit(1 if missing else 0)
PY
rc=$?
rm -f "$OUT"
exit $rc
