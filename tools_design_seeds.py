#!/usr/bin/env python3
"""Regenerates DESIGN.md section 11 from seeded/*/meta.json."""
import glob
import json
import os

P = '/verif/DESIGN.md'
rows = []
for d in sorted(glob.glob('/verif/seeded/*')):
    m = json.load(open(d + '/meta.json'))
    def clean(x, n):
        return (x or '').replace('\n', ' ').replace('|', '/')[:n]
    rows.append((os.path.basename(d), m.get('property'), clean(m.get('summary'), 230), clean(m.get('needs'), 200), clean(m.get('checks'), 600)))
out = ["", "## 11. Seeded changes: which checks catch which", "",
       "Each change below was produced by a fresh sub-agent that was given only the text of one property and its own scratch git worktree of `/repo` (nothing from `/verif`), with the brief to break the property while keeping the package importable and the 105 baseline tests green, in a way that needs something specific to manifest (second-round agents also got a list of ideas already used, to force different ones).  I confirmed every one myself before keeping it (`tools_seed.sh`: the demonstration exits 1 with the change and 0 without; `tools_baseline.sh` reports 105/105 with the change), and ran the checks against it with `DD_SRC=<scratch tree>` — the same code path as `git -C /repo apply seeded/<id>/patch.diff`, without touching `/repo` while background runs use it (`tools_try_patch.sh <id> <PROP>` repeats that from the committed patch).  `seeded/<id>/` holds `patch.diff`, `demo.py`, `meta.json`.  Counts are failing runs of the *quick* tier (9600 runs unless the master stopped early after 40 failures).", "",
       "| seeded change | prop. | what it is | what my checks did |", "|---|---|---|---|"]
for n, p, su, ne, ch in rows:
    out.append(f"| `{n}` | {p} | {su} | {ch} |")
out += ["", open('/verif/tools_design_seeds_notes.md').read()]
s = open(P).read()
if '\n## 11. Seeded changes' in s:
    s = s[:s.index('\n## 11. Seeded changes')]
s = s.rstrip('\n') + '\n' + '\n'.join(out)
open(P, 'w').write(s)
print(len(rows), 'seeded changes')
