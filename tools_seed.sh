#!/bin/sh
# usage: tools_seed.sh <worktree> <PROP> [more props...]
# Confirms a seeded change (demo fails with it / passes without, baseline tests
# unchanged), then runs the given checks against the worktree via DD_SRC.
WT="$1"; shift
cd "$WT" || exit 2
echo "== demo WITH change"; /venv/bin/python _seed/demo.py >/tmp/demo_with.out 2>&1; echo "exit=$? $(tail -2 /tmp/demo_with.out | tr '\n' ' ' | cut -c1-200)"
# (git stash is shared between worktrees: use a patch file instead)
P="$(mktemp /tmp/seedpatch.XXXXXX)"; git diff -- dd > "$P"
git apply -R "$P" && { echo "== demo WITHOUT change"; /venv/bin/python _seed/demo.py >/tmp/demo_wo.out 2>&1; echo "exit=$? $(tail -1 /tmp/demo_wo.out | cut -c1-200)"; git apply "$P"; }
rm -f "$P"
echo "== baseline tests with change"; /verif/tools_baseline.sh "$WT"
cd /verif
for P in "$@"; do
  DD_SRC="$WT" ./check "$P" --runs "${RUNS:-9600}" 2>&1 | grep -v "^KNOWN" | tail -6 | cut -c1-260
done
